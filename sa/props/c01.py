"""C01 - request results equal the GraphQL execution algorithm's result.

Decides the *shape* conditions of CollectFields / ExecuteSelectionSet /
CompleteValue (spec June 2018, 6.3.2, 6.3, 6.4) without which `data` cannot equal
the specification's value.  Not decided: the equality itself over all schemas x
documents x data trees.
"""
from __future__ import annotations

import ast

from ..model import AnalysisError, dotted, unparse, walk_no_nested
from ..pathtab import Atoms, canon, evaluate
from ..q import FuncView, callee_last, arg, arg_text, cfg_of, contains, isinstance_test, kwargs, strip_await

EXPLANATION = (
    "Static shape conditions of the execution algorithm: selection-kind exhaustiveness, response-key "
    "accumulation, skip/include gating, fragment visited-set and type-condition dominance, positional "
    "alignment of sibling results, exactly one resolver call with the specified operands, default resolvers, "
    "completion-chain table per output type class, type-resolver precedence. Decides structure, not the "
    "value equality over all inputs."
)

COLLECT = "tartiflette/execution/collect.py"
EXECUTE = "tartiflette/execution/execute.py"
FACTORY = "tartiflette/resolver/factory.py"
DEFAULT = "tartiflette/resolver/default.py"


def _selection_loop(fv: FuncView):
    for lp in fv.loops():
        if isinstance(lp, ast.For) and unparse(lp.iter).endswith(".selections"):
            return lp
    raise AnalysisError(f"loop over selection_set.selections not found in {fv.func.short}")


def _arms(loop: ast.For):
    """isinstance arms of the if/elif chain at the top of the loop body:
    [(type name, body stmts, If node)]."""
    var = unparse(loop.target)
    arms = []
    stmts = [s for s in loop.body if isinstance(s, ast.If)]
    for top in stmts:
        cur = top
        while True:
            it = isinstance_test(cur.test)
            if it and it[0] == var:
                for t in it[1]:
                    arms.append((t, cur.body, cur))
            if len(cur.orelse) == 1 and isinstance(cur.orelse[0], ast.If):
                cur = cur.orelse[0]
            else:
                break
    return var, arms


def check(ck):
    repo = ck.repo
    collection_rules(ck, repo)
    _rest(ck, repo)


def collection_rules(ck, repo):
    """R1-R5: field collection (shared with C03 - exactly the selected keys - and C09 - document order)."""
    collect = repo.func(COLLECT, "collect_fields")
    fv = FuncView(collect)
    loop = _selection_loop(fv)
    var, arms = _arms(loop)
    sel_classes = [c.name for c in repo.subclasses("tartiflette.language.ast.base.SelectionNode")]
    ck.count("selection_node_subclasses", len(sel_classes), 3)

    # ---------------------------------------------------------------- R1
    with ck.rule("R1"):
        arm_types = {}
        for t, body, ifn in arms:
            r = repo.resolve_name(collect.module, t)
            cls = repo.lookup(r)
            arm_types[getattr(cls, "name", t)] = (body, ifn)
        for c in sel_classes:
            ck.ob(f"collect_fields has an isinstance arm for selection kind {c}", c in arm_types, collect, loop,
                  construct=f"arm:{c}", detail=f"arms found: {sorted(arm_types)}")
        rec_kinds = _kinds_that_recurse(collect, var)
        for name, (body, ifn) in arm_types.items():
            effects = [n for s in body for n in ast.walk(s) if isinstance(n, ast.Call)
                       and callee_last(n) in ("append", "collect_fields")]
            # a fragment kind may select its fragment in its arm and recurse in a tail shared with the other kind: judged on paths
            ck.ob(f"arm {name} performs a collecting effect", bool(effects) or name in rec_kinds, collect, ifn, construct=f"arm-effect:{name}")

    # the three collecting effects
    def arm_body(kind):
        for t, body, ifn in arms:
            r = repo.lookup(repo.resolve_name(collect.module, t))
            if getattr(r, "name", t) == kind:
                return body, ifn
        raise AnalysisError(f"arm for {kind} missing in collect_fields")

    def effects_in(body, names):
        return [n for s in body for n in ast.walk(s) if isinstance(n, ast.Call) and callee_last(n) in names]

    # ---------------------------------------------------------------- R2
    with ck.rule("R2"):
        body, ifn = arm_body("FieldNode")
        acc_param = collect.positional_params[3] if len(collect.positional_params) > 3 else "fields"
        stores = []
        for s in body:
            for n in ast.walk(s):
                if isinstance(n, ast.Call) and isinstance(n.func, ast.Attribute) and n.func.attr in (
                        "append", "extend", "insert", "update", "setdefault", "__setitem__"):
                    if acc_param in [x.id for x in ast.walk(n.func.value) if isinstance(x, ast.Name)]:
                        stores.append(n)
                if isinstance(n, (ast.Assign, ast.AugAssign)):
                    tg = n.targets if isinstance(n, ast.Assign) else [n.target]
                    for t in tg:
                        if isinstance(t, ast.Subscript) and unparse(t.value) == acc_param:
                            stores.append(n)
        # accumulate form: fields.setdefault(K, []).append(sel) | fields[K].append(sel) with an
        # `if K not in fields: fields[K] = []` initialisation.  K may be a local bound in the arm.
        local = {}
        for st in body:
            for n in ast.walk(st):
                if isinstance(n, ast.Assign) and isinstance(n.targets[0], ast.Name):
                    local[n.targets[0].id] = n.value

        def res(e):
            return local.get(e.id, e) if isinstance(e, ast.Name) else e

        outer = [x for x in stores if not any(x is not o and contains(o, x) for o in stores)]
        appends, inits, other = [], [], []
        for x in outer:
            if isinstance(x, ast.Call) and x.func.attr == "append":
                appends.append(x)
            elif isinstance(x, ast.Assign) and isinstance(x.targets[0], ast.Subscript) and unparse(x.value) in ("[]", "list()"):
                inits.append(x)
            else:
                other.append(x)
        ok_form, key_expr = False, None
        if len(appends) == 1 and not other:
            recv = appends[0].func.value
            if isinstance(recv, ast.Call) and isinstance(recv.func, ast.Attribute) and recv.func.attr == "setdefault" \
                    and unparse(recv.func.value) == acc_param and len(recv.args) == 2 and unparse(recv.args[1]) == "[]":
                ok_form, key_expr = not inits, res(recv.args[0])
            elif isinstance(recv, ast.Subscript) and unparse(recv.value) == acc_param:
                k = unparse(recv.slice)
                guarded = all(unparse(i.targets[0].slice) == k and fv.guarded(i, lambda t: t == f"{k} in {acc_param}", "F")
                              for i in inits)
                ok_form, key_expr = bool(inits) and guarded, res(recv.slice)
            appended = appends[0].args[0] if appends[0].args else None
            ok_form = ok_form and appended is not None and unparse(appended) == var
        ck.ob("FieldNode arm: the only store into the result mapping is accumulate-form (append under the response key)",
              ok_form, collect, appends[0] if appends else ifn, construct="field-arm:accumulate",
              detail=f"{len(appends)} append(s), {len(inits)} initialisation(s), {len(other)} other store(s) into {acc_param}")
        key_ok = key_expr is not None and isinstance(key_expr, ast.Call) and dotted(key_expr.func) == "get_field_entry_key" \
            and [unparse(a) for a in key_expr.args] == [var]
        ck.ob("FieldNode arm: the key is get_field_entry_key(selection)", key_ok, collect, key_expr or ifn,
              construct="field-arm:key")
        # Tab(get_field_entry_key)
        gk = repo.func(COLLECT, "get_field_entry_key")
        p = gk.positional_params[0]
        atoms = Atoms({f"{p}.alias": "has_alias", f"{p}.alias is not None": "has_alias", f"{p}.alias is None": "!has_alias"})
        for has_alias, want in ((True, f"{p}.alias.value"), (False, f"{p}.name.value")):
            got = set()
            for tr in cfg_of(gk).simulate(lambda n, env: evaluate(n.ast, env, {"has_alias": has_alias}, atoms)):
                last = tr.last_stmt()
                if last is None or not isinstance(last.ast, ast.Return):
                    got.add("<no return>")
                    continue
                got.add(_pick(last.ast.value, tr.env, {"has_alias": has_alias}, atoms))
            ck.ob(f"get_field_entry_key: alias {'present' if has_alias else 'absent'} -> {want}", got == {want}, gk,
                  gk.node, construct=f"table:has_alias={has_alias}", detail=f"got {sorted(got)}" + atoms.note())
        # order: plain dict, no reordering
        for fn in (collect, repo.func(COLLECT, "collect_subfields"), repo.func(EXECUTE, "execute_fields"),
                   repo.func(EXECUTE, "execute_fields_serially"), repo.func(EXECUTE, "execute_operation")):
            bad = [c for c in FuncView(fn).calls(["sorted", "reversed", "set", "frozenset", "shuffle"])
                   if any(isinstance(x, ast.Name) and x.id in ("fields", "subfield_nodes", "results") for a in c.args for x in ast.walk(a))]
            ck.ob(f"{fn.name}: collected mapping is never reordered (no sorted/reversed/set over it)", not bad, fn,
                  bad[0] if bad else fn.node, construct=f"reorder:{fn.name}" if not bad else None)
        inits = [n for n in walk_no_nested(collect.node) if isinstance(n, (ast.Assign, ast.AnnAssign))
                 and unparse(n.targets[0] if isinstance(n, ast.Assign) else n.target) == acc_param]
        ck.ob("collect_fields: the accumulator defaults to a plain dict literal",
              bool(inits) and all(unparse(n.value) in ("{}", "dict()") for n in inits), collect, inits[0] if inits else collect.node,
              construct="acc-init")
        ck.ob("collect_fields: a fresh accumulator is created only when none was passed (a passed one is what merges sibling selections)",
              bool(inits) and all(set(fv.conditions(n)) == {(f"{acc_param} is None", "T")} for n in inits), collect, inits[0] if inits else collect.node,
              construct="acc-init-guard")
        vis_param = collect.positional_params[4]
        vinits = [n for n in walk_no_nested(collect.node) if isinstance(n, (ast.Assign, ast.AnnAssign))
                  and unparse(n.targets[0] if isinstance(n, ast.Assign) else n.target) == vis_param]
        ck.ob("collect_fields: a fresh visited set is created only when none was passed",
              bool(vinits) and all(set(fv.conditions(n)) == {(f"{vis_param} is None", "T")} and unparse(n.value) == "set()" for n in vinits), collect,
              vinits[0] if vinits else collect.node, construct="visited-init-guard")
        rets = fv.returns()
        ck.ob("collect_fields returns the accumulator", len(rets) == 1 and unparse(rets[0].value) == acc_param and not fv.enclosing_loops(rets[0]), collect,
              rets[0] if rets else collect.node, construct="acc-return")

    # ---------------------------------------------------------------- R3
    with ck.rule("R3"):
        rec_kinds3 = _kinds_that_recurse(collect, var)
        for kind, names in (("FieldNode", ("append",)), ("InlineFragmentNode", ("collect_fields",)),
                            ("FragmentSpreadNode", ("collect_fields",))):
            body, ifn = arm_body(kind)
            effs = effects_in(body, names)
            if not effs and kind in rec_kinds3:
                continue   # the recursion sits in a tail shared by both fragment kinds: its gate is decided on paths (R4, gate:<kind>)
            if not effs:
                raise AnalysisError(f"no collecting effect in arm {kind}")
            for e in effs:
                conds = fv.conditions(e)
                ok = any(t.startswith("await should_include_node(") and t.rstrip(")").endswith(var) and o == "T"
                         for t, o in conds)
                ck.ob(f"{kind} arm: collecting effect is guarded by should_include_node(..., {var}) == True", ok,
                      collect, e, construct=f"gate:{kind}", detail=f"conditions: {conds}")
        _should_include_table(ck, repo)

    # ---------------------------------------------------------------- R4
    with ck.rule("R4"):
        _fragment_rows(ck, collect, var)
        _condition_match_table(ck, repo)

    # ---------------------------------------------------------------- R5
    with ck.rule("R5"):
        cs = repo.func(COLLECT, "collect_subfields")
        cv = FuncView(cs)
        call = cv.one_call("collect_fields")
        lp = cv.enclosing(call, (ast.For,))
        ck.ob("collect_subfields: collect_fields is called once per field node of the merged group",
              lp is not None and unparse(lp.iter) == cs.positional_params[2], cs, call, construct="subfields:loop")
        acc, vis = arg(call, 3, "fields"), arg(call, 4, "visited_fragment_names")
        st = cv.stmt_of(call)
        same_acc = acc is not None and isinstance(st, ast.Assign) and unparse(st.targets[0]) == unparse(acc)
        ck.ob("collect_subfields: one accumulator mapping is threaded through every call (merged sub-selections)",
              bool(same_acc), cs, call, construct="subfields:acc")
        created_outside = []
        for name in (acc, vis):
            nm = unparse(name) if name is not None else None
            assigns = [n for n in walk_no_nested(cs.node) if isinstance(n, (ast.Assign, ast.AnnAssign))
                       and unparse(n.targets[0] if isinstance(n, ast.Assign) else n.target) == nm and n is not st]
            created_outside.append(bool(assigns) and all(lp is not None and not contains(lp, a) for a in assigns))
        ck.ob("collect_subfields: accumulator and visited set are created once, before the loop", all(created_outside), cs,
              call, construct="subfields:created-once")
        ck.ob("collect_subfields: passes the return type and each node's own selection set",
              arg_text(call, 1) == cs.positional_params[1] and "selection_set" in (arg_text(call, 2) or ""), cs, call,
              construct="subfields:operands")
        rets = cv.returns()
        ck.ob("collect_subfields: returns the accumulator", len(rets) == 1 and acc is not None and unparse(rets[0].value) == unparse(acc),
              cs, rets[0] if rets else cs.node, construct="subfields:return")



def _rest(ck, repo):
    # ---------------------------------------------------------------- R6
    with ck.rule("R6"):
        _execute_fields_alignment(ck, repo)

    # ---------------------------------------------------------------- R7
    with ck.rule("R7"):
        _resolver_call(ck, repo)

    # ---------------------------------------------------------------- R8
    with ck.rule("R8"):
        _defaults(ck, repo)

    # ---------------------------------------------------------------- R9
    with ck.rule("R9"):
        _completion_chain(ck, repo)

    # ---------------------------------------------------------------- R10
    with ck.rule("R10"):
        _type_resolver(ck, repo)
        # type conditions and the runtime-type check are answered from the possible-type sets
        from .c03 import possible_type_sets
        possible_type_sets(ck, repo)
        ev = repo.func("tartiflette/coercers/outputs/abstract_coercer.py", "ensure_valid_runtime_type")
        from ..pathtab import eager_env
        from ..q import inlined_view
        evv = inlined_view(repo, ev)
        ep = ev.positional_params
        ft = evv.maybe_call("find_type")
        fst = evv.stmt_of(ft) if ft is not None else None
        seen = set()
        for tr in evv.cfg.simulate(lambda n, env: None, follow_exc=lambda n, env: n.kind == "stmt" and n.ast is fst):
            nodes = tr.nodes
            idx = [i for i, n in enumerate(nodes) if n.kind == "test" and isinstance(n.ast, ast.Call) and unparse(n.ast.func) == "isinstance"
                   and len(n.ast.args) == 2 and unparse(n.ast.args[1]) == "GraphQLObjectType"]
            if not idx:
                continue
            pre = eager_env(type(tr)(evv.cfg, tr.path[:idx[0] + 1], {}, "prefix"), "CAUGHT")
            val = unparse(pre["__sub__"](nodes[idx[0]].ast.args[0]))
            is_str = None
            for i, n in enumerate(nodes[:idx[0]]):
                if n.kind == "test" and unparse(n.ast).replace(" ", "") == f"isinstance({ep[0]},str)":
                    lab = [l for m, l in evv.cfg.succ[n.id] if m == nodes[i + 1].id]
                    is_str = lab[0] if lab else None
            handled = any(n.kind == "handler" for n in nodes[:idx[0]])
            known = None  # the other spelling of "is it a known name": an explicit membership test instead of catching KeyError
            for i, n in enumerate(nodes[:idx[0]]):
                if n.kind == "test" and unparse(n.ast).replace(" ", "") == f"{ep[1]}.schema.has_type({ep[0]})":
                    lab = [l for m, l in evv.cfg.succ[n.id] if m == nodes[i + 1].id]
                    known = lab[0] if lab else None
            seen.add((is_str, handled, known, val))
        looked, kept = f"{ep[1]}.schema.find_type({ep[0]})", ep[0]
        ok = {v for _, _, _, v in seen} == {looked, kept}
        for is_str, handled, known, val in seen:
            if val == looked:
                ok = ok and is_str == "T" and not handled and known in (None, "T")
            else:
                ok = ok and (is_str == "F" or handled or known == "F")
        ok = ok and any(v == kept and i == "T" for i, _, _, v in seen)  # an unknown *name* stays a name
        ck.ob("ensure_valid_runtime_type: a type *name* is looked up in this request's schema, an object type is taken as it is, an unknown name stays a name (and fails the object-type test)",
              ok, ev, ft or ev.node, construct="runtime:name-lookup", detail=str(sorted(map(str, seen))))

    # ---------------------------------------------------------------- R11
    # "spec-coerced arguments": the argument decision table and the per-declared-argument structure
    # (the same obligations as C05.R1 / C05.R2, which are necessary conditions of C01 as well)
    with ck.rule("R11"):
        from . import c05
        c05._argument_table(ck, repo)
        c05._coerce_arguments(ck, repo)
        # ... and the variable map those tables read: an omitted variable without default has *no* entry (C04.R2)
        from . import c04
        c04._coerce_variables(ck, repo)


def _pick(expr, env, val, atoms) -> str:
    """Resolve IfExp chains under the valuation and return the chosen leaf text."""
    while isinstance(expr, ast.IfExp):
        c = evaluate(expr.test, env, val, atoms)
        if c is None:
            return "<undecided>"
        expr = expr.body if c else expr.orelse
    from ..pathtab import canon_under
    if isinstance(expr, ast.Name) and expr.id in env and env[expr.id] is not None:
        return canon_under(expr, env, val, atoms)   # an intermediate holding the chosen value
    return unparse(expr)


def possible_kinds(row, subject, universe):
    """The classes of `universe` that `subject` may still belong to after the isinstance tests of the path."""
    poss = set(universe)
    for txt, out in row["conds"]:
        try:
            e = ast.parse(txt, mode="eval").body
        except SyntaxError:
            continue
        neg = False
        while isinstance(e, ast.UnaryOp) and isinstance(e.op, ast.Not):
            e, neg = e.operand, not neg
        if not (isinstance(e, ast.Call) and isinstance(e.func, ast.Name) and e.func.id == "isinstance" and len(e.args) == 2 and unparse(e.args[0]) == subject):
            continue
        c = e.args[1]
        classes = {unparse(x) for x in c.elts} if isinstance(c, ast.Tuple) else {unparse(c)}
        if (out == "T") != neg:
            poss &= classes
        else:
            poss -= classes
    return poss


def _kinds_that_recurse(collect, var):
    """Selection kinds for which some path through one selection recurses into collect_fields."""
    from ..pathtab import outcome_rows
    out = set()
    for r in outcome_rows(FuncView(collect)):
        if sum(1 for nd in r["trace"].nodes if nd.kind == "for") != 2:
            continue
        kinds = possible_kinds(r, var, ("FieldNode", "InlineFragmentNode", "FragmentSpreadNode"))
        if len(kinds) == 1 and any(nd.kind == "stmt" and nd.ast is not None and any(isinstance(c, ast.Call) and callee_last(c) == "collect_fields" for c in ast.walk(nd.ast))
                                   for nd in r["trace"].nodes):
            out |= kinds
    return out


def _fragment_rows(ck, collect, var):
    """CollectFields 3.d / 3.e as a path-outcome table of collect_fields: one row per path through one selection, classified by
    the kind of the selection, whatever the arms look like (separate arms, one arm for both fragment kinds, helpers)."""
    from ..pathtab import outcome_rows, truth
    fv = FuncView(collect)
    ctx, rt, _sel, acc, vis = collect.positional_params[:5]
    universe = ("FieldNode", "InlineFragmentNode", "FragmentSpreadNode")
    name = f"{var}.name.value"
    accs, viss = {acc, "{}", "dict()"}, {vis, "set()"}
    n = {"FragmentSpreadNode": 0, "InlineFragmentNode": 0}
    for r in outcome_rows(fv):
        if sum(1 for nd in r["trace"].nodes if nd.kind == "for") != 2:
            continue  # exactly one selection walked on this path
        kinds = possible_kinds(r, var, universe)
        if len(kinds) != 1 or "FieldNode" in kinds:
            continue
        kind = next(iter(kinds))
        sub = r["sym"]["__sub__"]
        nodes = r["trace"].nodes
        rec, adds, gate_at = [], [], None
        gate = None
        for i, nd in enumerate(nodes):
            if nd.ast is None:
                continue
            if nd.kind != "stmt":
                continue
            for c in ast.walk(nd.ast):
                if isinstance(c, ast.Call) and callee_last(c) == "collect_fields":
                    rec.append((i, c))
                if isinstance(c, ast.Call) and callee_last(c) == "add" and isinstance(c.func, ast.Attribute) and unparse(sub(c.func.value)) in viss:
                    adds.append((i, c))
        # position of the gate among the tests, in path order: conds are in path order, so are the test nodes
        tests = [i for i, nd in enumerate(nodes) if nd.kind == "test"]
        gi = [k for k, (t, o) in enumerate(r["conds"]) if t.replace(" ", "").startswith(f"awaitshould_include_node({ctx},{var})".replace(" ", ""))]
        included = r["conds"][gi[-1]][1] if gi else None
        gate_at = tests[gi[-1]] if gi and len(tests) == len(r["conds"]) else None
        visited = None
        for t, o in r["conds"]:
            tt = t.replace(" ", "")
            for v_ in viss:
                if tt == f"{name}in{v_}".replace(" ", ""):
                    visited = o
                if tt == f"{name}notin{v_}".replace(" ", ""):
                    visited = "F" if o == "T" else "T"
        where = r["last"] or collect.node
        tag = "spread" if kind == "FragmentSpreadNode" else "inline"
        if included == "F":
            ck.ob(f"{tag}: a selection its @skip/@include gate refuses contributes nothing and marks nothing", not rec and not adds, collect, where, construct=f"{tag}:gate-refuses")
        if kind == "FragmentSpreadNode":
            frag = f"{ctx}.fragments[{name}]"
            if visited == "T":
                ck.ob("spread: a fragment already visited is not collected again", not rec, collect, where, construct="spread:not-visited")
            for i, c in adds:
                ok = included == "T" and (gate_at is None or gate_at < i)
                ck.ob("spread arm: the fragment is marked visited only after its @skip/@include gate let it through (a skipped spread must not hide a later one)", ok, collect, c,
                      construct="spread:add-after-gate", detail=f"gate outcome {included}")
                ck.ob("spread arm: the membership test and the add use the same name and the same set", visited == "F" and unparse(sub(c.args[0])) == name, collect, c,
                      construct="spread:add-same", detail=f"adds {unparse(sub(c.args[0]))}; membership outcome {visited}")
            for i, c in rec:
                n[kind] += 1
                ck.ob("spread arm: recursion only when the fragment name is not in the visited set", visited == "F", collect, c, construct="spread:not-visited", detail=str(r["conds"]))
                ck.ob("spread arm: the name is added to the visited set before the recursion", any(j < i for j, _ in adds), collect, c, construct="spread:add-dominates")
                ck.ob("spread arm: recursion only for a spread its gate let through", included == "T", collect, c, construct="gate:FragmentSpreadNode")
                m = truth(r, f"does_fragment_condition_match({ctx}, {frag}, {rt})")
                ck.ob("spread arm: recursion guarded by does_fragment_condition_match(context, the definition registered under the spread's name, the runtime type) == True", m == "T", collect, c,
                      construct="spread:type-condition-args", detail=str([t for t, o in r["conds"] if "does_fragment_condition_match" in t]))
                a = [unparse(sub(x)) for x in c.args] + [None] * 5
                kw = {k.arg: unparse(sub(k.value)) for k in c.keywords}
                got = (a[0], a[1], a[2], kw.get("fields", a[3]), kw.get("visited_fragment_names", a[4]))
                ok = got[0] == ctx and got[1] == rt and got[2] == f"{frag}.selection_set" and got[3] in accs and got[4] in viss
                ck.ob("spread arm: recursion collects the definition's selection set into the same accumulator, with the same context, runtime type and visited set", ok, collect, c,
                      construct="spread:rec-args", detail=str(got))
        else:
            for i, c in rec:
                n[kind] += 1
                ck.ob("inline arm: recursion only for a fragment its gate let through", included == "T", collect, c, construct="gate:InlineFragmentNode")
                m = truth(r, f"does_fragment_condition_match({ctx}, {var}, {rt})")
                ck.ob("inline arm: recursion guarded by does_fragment_condition_match(context, this selection, the runtime type) == True", m == "T", collect, c,
                      construct="inline:type-condition-args", detail=str([t for t, o in r["conds"] if "does_fragment_condition_match" in t]))
                a = [unparse(sub(x)) for x in c.args] + [None] * 5
                kw = {k.arg: unparse(sub(k.value)) for k in c.keywords}
                got = (a[0], a[1], a[2], kw.get("fields", a[3]), kw.get("visited_fragment_names", a[4]))
                ok = got[0] == ctx and got[1] == rt and got[2] == f"{var}.selection_set" and got[3] in accs and got[4] in viss
                ck.ob("inline arm: recursion collects the fragment's own selection set into the same accumulator, with the same context, runtime type and visited set", ok, collect, c,
                      construct="inline:rec-args", detail=str(got))
            ck.ob("inline: an inline fragment marks nothing visited", not adds, collect, where, construct="inline:no-add")
    for k, v in n.items():
        if v == 0:
            raise AnalysisError(f"collect_fields: no path recurses for a {k}")
    ck.count("fragment_recursion_paths", sum(n.values()), 2)


def _rec_args(ck, collect, call, tag):
    p = collect.positional_params
    ok = (arg_text(call, 0) == p[0] and arg_text(call, 1) == p[1] and arg_text(call, 3, "fields") == p[3]
          and arg_text(call, 4, "visited_fragment_names") == p[4] and "selection_set" in (arg_text(call, 2) or ""))
    ck.ob(f"{tag} arm: recursion passes the same context, runtime type, accumulator and visited set", ok, collect, call,
          construct=f"{tag}:rec-args")


def _should_include_table(ck, repo):
    f = repo.func(COLLECT, "should_include_node")
    fv = FuncView(f)
    node_p = f.positional_params[1]
    atoms = Atoms({f"{node_p}.directives": "has_directives"}, strict=False)
    # hook name table
    hook_assign = None
    for n in walk_no_nested(f.node):
        if isinstance(n, ast.Assign) and isinstance(n.value, ast.IfExp):
            hook_assign = n
    if hook_assign is None:
        raise AnalysisError("hook-name selection not found in should_include_node")
    katoms = Atoms({f"isinstance({node_p}, FieldNode)": "is_field", f"isinstance({node_p}, FragmentSpreadNode)": "is_spread",
                    f"isinstance({node_p}, InlineFragmentNode)": "is_inline"})
    want = {"FieldNode": "'on_field_collection'", "FragmentSpreadNode": "'on_fragment_spread_collection'",
            "InlineFragmentNode": "'on_inline_fragment_collection'"}
    for kind, v in (("FieldNode", {"is_field": True, "is_spread": False, "is_inline": False}),
                    ("FragmentSpreadNode", {"is_field": False, "is_spread": True, "is_inline": False}),
                    ("InlineFragmentNode", {"is_field": False, "is_spread": False, "is_inline": True})):
        got = _pick(hook_assign.value, {}, v, katoms)
        ck.ob(f"should_include_node: {kind} selects hook {want[kind]}", got == want[kind], f, hook_assign,
              construct=f"hook:{kind}", detail=f"got {got}" + katoms.note())
    wcall = fv.one_call("wraps_with_directives")
    ck.ob("should_include_node: the chosen hook name is the one wrapped", arg_text(wcall, 1, "directive_hook") == unparse(hook_assign.targets[0]),
          f, wcall, construct="hook:passed")
    ck.ob("should_include_node: the chain has the identity default innermost (a selection whose directives define no collection hook is kept)",
          arg_text(wcall, 4, "with_default") == "True" and arg(wcall, 2, "func") is None, f, wcall, construct="hook:with-default")
    outer = fv.parent(wcall)
    ok = isinstance(outer, ast.Call) and outer.func is wcall and [unparse(a) for a in outer.args] == [node_p, f"{f.positional_params[0]}.context"] and fv.is_awaited(outer)
    ck.ob("should_include_node: the chain is awaited with (the node, the request context)", ok, f, wcall, construct="hook:operands")
    cdn = fv.one_call("compute_directive_nodes")
    ck.ob("should_include_node: directives of *this* node are computed with the request's variables",
          arg_text(cdn, 1) == f"{node_p}.directives" and "variable_values" in (arg_text(cdn, 2) or ""), f, cdn,
          construct="hook:directives-of-node")
    # decision table
    for has_dir in (False, True):
        classes = set()
        for tr in fv.cfg.simulate(lambda n, env: evaluate(n.ast, env, {"has_directives": has_dir}, atoms),
                                  follow_exc=lambda n, env: n.kind == "stmt" and any(isinstance(x, ast.Await) for x in ast.walk(n.ast))):
            last = tr.last_stmt()
            hs = [n for n in tr.nodes if n.kind == "handler"]
            if tr.exit_kind != "return_exit" or last is None or not isinstance(last.ast, ast.Return):
                classes.add("raises")
                continue
            v = unparse(last.ast.value)
            if hs:
                ht = unparse(hs[-1].ast.type) if hs[-1].ast.type else "<bare>"
                classes.add(f"{ht}->{v}")
            else:
                awaited = any(n.kind == "stmt" and any(isinstance(x, ast.Await) for x in ast.walk(n.ast)) for n in tr.nodes)
                classes.add(("hooks-ran->" if awaited else "no-hooks->") + v)
        if not has_dir:
            ok = classes == {"no-hooks->True"}
        else:
            ok = "hooks-ran->True" in classes and "SkipCollection->False" in classes and \
                classes <= {"hooks-ran->True", "SkipCollection->False", "Exception->False"}
        ck.ob(f"should_include_node table: directives {'present' if has_dir else 'absent'}", ok, f, f.node,
              construct=f"table:has_directives={has_dir}", detail=f"terminal classes {sorted(classes)}")
    # built-in skip/include polarity and hook coverage
    for rel, fn, cls, polarity in (("tartiflette/directive/builtins/skip.py", "skip_selection", "SkipDirective", True),
                                   ("tartiflette/directive/builtins/include.py", "include_selection", "IncludeDirective", False)):
        g = repo.func(rel, fn)
        gv = FuncView(g)
        rs = gv.raises()
        ok = False
        if len(rs) == 1 and "SkipCollection" in unparse(rs[0]):
            conds = gv.conditions(rs[0])
            ok = any(t == f"{g.positional_params[0]}['if']" and o == ("T" if polarity else "F") for t, o in conds)
        ck.ob(f"{fn}: raises SkipCollection exactly when `if` is {polarity}", ok, g, rs[0] if rs else g.node,
              construct=f"polarity:{fn}")
        rets = gv.returns()
        ck.ob(f"{fn}: otherwise returns the selection", len(rets) == 1 and unparse(rets[0].value) == g.positional_params[1], g,
              rets[0] if rets else g.node, construct=f"passthrough:{fn}")
        c = repo.cls(rel, cls)
        for hook in ("on_field_collection", "on_fragment_spread_collection", "on_inline_fragment_collection"):
            m = c.methods.get(hook)
            good = False
            if m is not None:
                mv = FuncView(m)
                cs = mv.calls(fn)
                good = len(cs) == 1 and m.is_async and arg_text(cs[0], 0) == m.positional_params[1] and \
                    any(isinstance(x, ast.Await) for x in ast.walk(cs[0]))
            ck.ob(f"{cls}.{hook} applies {fn} with its own arguments after the next directive", good, m, m.node if m else c.node,
                  where=f"{rel}::{cls}.{hook}", construct=f"hook-impl:{cls}.{hook}")


def _condition_match_table(ck, repo):
    f = repo.func(COLLECT, "does_fragment_condition_match")
    fv = FuncView(f)
    p = f.positional_params
    atoms = Atoms({
        "type_condition_node": "has_condition", f"{p[1]}.type_condition": "has_condition",
        f"conditional_type is {p[2]}": "same_type",
        f"schema_type_from_ast({p[0]}.schema, {p[1]}.type_condition) is {p[2]}": "same_type",
        "conditional_type.is_abstract_type": "abstract",
        f"schema_type_from_ast({p[0]}.schema, {p[1]}.type_condition).is_abstract_type": "abstract",
        f"conditional_type.is_possible_type({p[2]})": "possible",
        f"schema_type_from_ast({p[0]}.schema, {p[1]}.type_condition).is_possible_type({p[2]})": "possible",
    })
    import itertools
    n = 0
    for hc, same, ab, poss in itertools.product([False, True], repeat=4):
        val = {"has_condition": hc, "same_type": same, "abstract": ab, "possible": poss}
        if same and (ab):  # an object type is never abstract
            continue
        want = (not hc) or same or (ab and poss)
        got = set()
        for tr in fv.cfg.simulate(lambda nd, env: evaluate(nd.ast, env, val, atoms)):
            last = tr.last_stmt()
            if last is None or not isinstance(last.ast, ast.Return):
                got.add("<none>")
                continue
            r = evaluate(last.ast.value, tr.env, val, atoms)
            got.add(r)
        n += 1
        ck.ob(f"does_fragment_condition_match table {val}", got == {want}, f, f.node,
              construct="table:" + ",".join(f"{k}={int(v)}" for k, v in val.items()), detail=f"got {got}, specification {want}" + atoms.note())
    ck.count("condition_match_valuations", n, 10)
    sc = fv.one_call("schema_type_from_ast")
    ck.ob("does_fragment_condition_match resolves the fragment's own type condition in the request's schema",
          arg_text(sc, 0) == f"{p[0]}.schema" and (arg_text(sc, 1) in ("type_condition_node", f"{p[1]}.type_condition")), f, sc,
          construct="condition:resolved")


def _execute_fields_alignment(ck, repo):
    """E13: execute_fields interpreted (awaiting = the awaited term; gather = its operands, in order) on a selection of three
    or four keys for every assignment of the parent_concurrently flag, with an unknown field at each position, and with a
    field that resolves to null among deferred ones.  The answer must map every known key, in selection order, to the result
    of *that key's* resolver called with (context, parent type, source, that key's nodes, Path(path, key), flag) - whatever
    bookkeeping links a deferred field to its slot (index dictionary, parallel lists, pairs)."""
    from .. import absint
    from ..absint import App, Env, LambdaV, RecV, Sym
    f = repo.func(EXECUTE, "execute_fields")
    p = f.positional_params
    n = 0
    gather_ok = [True]

    def run(keys, flags, unknown_at, null_at):
        defs = {}
        fields = {}
        for i, k in enumerate(keys):
            name = f"field_{k}"
            fields[k] = [RecV("FieldNode", name=RecV("NameNode", value=name, _strict=True), _label=f"<node {k}>", _strict=True)]
            if i == unknown_at:
                continue
            if i == null_at:
                res = LambdaV(ast.parse("lambda *a, **k: None", mode="eval").body, Env())
            else:
                res = Sym(f"resolver_{k}")
            defs[name] = RecV("GraphQLField", resolver=res, parent_concurrently=flags[i], _label=f"<definition {k}>", _strict=True)

        def gfd(args, kwargs):
            return defs.get(args[2]) if len(args) == 3 and absint.norm(args[0]) == absint.norm(Sym("SCHEMA")) and absint.norm(args[1]) == absint.norm(Sym("PARENT")) else Sym("<wrong lookup>")

        def gather(args, kwargs):
            if kwargs.get("return_exceptions") is not True:
                gather_ok[0] = False
            return list(args)

        ctx = RecV("ExecutionContext", schema=Sym("SCHEMA"), _label="CTX", _strict=True)
        it = absint.Interp(repo, f.module, interpret={"tartiflette.utils.values.is_invalid_value"},
                           stubs={"tartiflette.execution.helpers.get_field_definition": gfd, "asyncio.gather": gather,
                                  "tartiflette.utils.errors.extract_exceptions_from_results": lambda a, k: None})
        got = it.run(f, [ctx, Sym("PARENT"), Sym("SOURCE"), Sym("PATH"), fields, False])
        want = {}
        for i, k in enumerate(keys):
            if i == unknown_at:
                continue
            if i == null_at:
                want[k] = None
            else:
                want[k] = App(Sym(f"resolver_{k}"), [ctx, Sym("PARENT"), Sym("SOURCE"), fields[k], App(Sym("tartiflette.coercers.common.Path"), [Sym("PATH"), k], {}), False], {})
        return got, want

    import itertools as _it
    cases = []
    keys = ("a", "b", "c")
    for flags in _it.product((False, True), repeat=3):
        cases.append((keys, flags, None, None))
    keys4 = ("a", "b", "c", "d")
    for flags in ((True, True, True, True), (False, True, False, True), (True, False, True, False)):
        for u in range(4):
            cases.append((keys4, flags, u, None))
        for z in range(4):
            if not flags[z]:
                cases.append((keys4, flags, None, z))   # a field awaited in place that resolved to null, next to deferred ones
    for keys_, flags, u, z in cases:
        tag = "".join("C" if x else "s" for x in flags) + (f":unknown@{u}" if u is not None else "") + (f":null@{z}" if z is not None else "")
        try:
            got, want = run(keys_, flags, u, z)
            why = None
        except absint.Unsupported as ex:
            raise AnalysisError(f"{f.short}: cannot be interpreted over abstract selections: {ex}")
        except absint.PyRaise as ex:
            got, want, why = None, None, f"raises {ex.name} ({ex.text})"
        n += 1
        ok = why is None and isinstance(got, dict) and list(got) == list(want) and all(absint.norm(got[k]) == absint.norm(want[k]) for k in want)
        ck.ob(f"execute_fields [{tag}]: every known key, in selection order, maps to the result of its own resolver call", ok, f, f.node, construct=f"align:{tag}",
              detail=why or f"got {got!r}")
    ck.ob("execute_fields: the deferred fields are awaited together, failures returned rather than raised (every sibling finishes, every error is collected)", gather_ok[0], f, f.node,
          construct="deferred:gather-operands", detail="gather(...) without return_exceptions=True re-raises the first failure")
    ck.count("execute_fields_shapes", n, 20)
    fv = FuncView(f)
    serial_twin(ck, repo)
    _resolve_field_forward(ck, repo)


def serial_twin(ck, repo):
    """Result construction of the serial executor (shared with C09.R2)."""
    s = repo.func(EXECUTE, "execute_fields_serially")
    sv = FuncView(s)
    sp = s.positional_params
    lp = [l for l in sv.loops() if isinstance(l, ast.For) and unparse(l.iter) == f"{sp[4]}.items()"]
    if len(lp) != 1:
        raise AnalysisError("execute_fields_serially: loop over fields.items() not found")
    lp = lp[0]
    key, nodes = [unparse(e) for e in lp.target.elts]
    st = [n for n in walk_no_nested(lp) if isinstance(n, ast.Assign) and isinstance(n.targets[0], ast.Subscript)]
    ok = len(st) == 1 and unparse(st[0].targets[0]) == f"results[{key}]" and sv.guarded(st[0], lambda t: t.startswith("is_invalid_value("), "F")
    ck.ob("execute_fields_serially: one keyed store per iteration, dropped only when undefined", ok, s, st[0] if st else lp,
          construct="serial:store")
    ok, detail = serial_resolver_calls(repo, s)
    ck.ob("execute_fields_serially: each iteration awaits the field's baked resolver once, with (ctx, parent type, source, this key's nodes, Path(path, key)) - "
          "directly or through resolve_field - and an unknown field is skipped", ok, s, lp, construct="serial:operands", detail=detail)
    rets = sv.returns()
    ck.ob("execute_fields_serially: returns the mapping it filled", len(rets) == 1 and unparse(rets[0].value) == "results", s,
          rets[0] if rets else s.node, construct="serial:return")


def serial_resolver_calls(repo, s):
    """Path view of execute_fields_serially with resolve_field inlined: what is awaited in one iteration, with which operands."""
    from ..pathtab import eager_env
    from ..q import inlined_view
    iv = inlined_view(repo, s)
    sp = s.positional_params
    lps = [l for l in iv.loops() if isinstance(l, ast.For) and unparse(l.iter) == f"{sp[4]}.items()"]
    if len(lps) != 1 or not isinstance(lps[0].target, ast.Tuple):
        return False, "loop over fields.items() not found"
    key, nodes = [unparse(e) for e in lps[0].target.elts]
    want = [sp[0], sp[1], sp[2], nodes, f"Path({sp[3]}, {key})"]
    seen = set()
    for tr in iv.cfg.simulate(lambda n, env: None):
        if not any(n.kind == "for" for n in tr.nodes):
            continue
        calls = []
        for i, n in enumerate(tr.nodes):
            if n.kind != "stmt":
                continue
            for c in ast.walk(n.ast):
                if isinstance(c, ast.Call) and isinstance(c.func, ast.Attribute) and c.func.attr == "resolver":
                    awaited = any(isinstance(a, ast.Await) and a.value is c for a in ast.walk(n.ast))
                    pre = eager_env(type(tr)(iv.cfg, tr.path[:i], {}, "prefix"), "CAUGHT")
                    args = [unparse(pre["__sub__"](a)) for a in c.args]
                    fd = unparse(pre["__sub__"](c.func.value))
                    calls.append((awaited, tuple(args[:5]), tuple(args[5:]), fd))
        unknown = [o for t, o in eager_env(tr, "CAUGHT")["__tests__"] if t.replace(" ", "").startswith("get_field_definition(") and t.replace(" ", "").endswith("isNone")]
        if not unknown and not calls:
            continue  # the mapping was empty: no iteration on this path
        seen.add((tuple(unknown[-1:]), tuple(calls)))
    ok = len(seen) >= 2
    for unknown, calls in seen:
        if unknown == ("T",):
            ok = ok and not calls
        else:
            ok = ok and len(calls) == 1 and calls[0][0] and list(calls[0][1]) == want and calls[0][2] in ((), ("False",)) and \
                calls[0][3].replace(" ", "") == f"get_field_definition({sp[0]}.schema,{sp[1]},{nodes}[0].name.value)"
    return ok, str(sorted(map(str, seen)))[:400]


def _resolve_field_forward(ck, repo):
    # resolve_field (execute.py) forwards operands unchanged
    rf = repo.func(EXECUTE, "resolve_field")
    rv = FuncView(rf)
    rp = rf.positional_params
    rcall = rv.one_call("resolver")
    ck.ob("execute.resolve_field forwards its operands to the baked resolver unchanged",
          [unparse(a) for a in rcall.args] == rp[:6] and rv.is_awaited(rcall), rf, rcall, construct="resolve_field:forward")
    un = [r for r in rv.returns() if unparse(r.value) == "UNDEFINED_VALUE"]
    ck.ob("execute.resolve_field: an unknown field yields the undefined marker (dropped from the response), nothing else does",
          len(un) == 1 and set(rv.conditions(un[0])) == {("field_definition is None", "T")} and rv.guarded(rcall, lambda t: t == "field_definition is None", "F"), rf,
          un[0] if un else rf.node, construct="resolve_field:unknown")
    fn_src = [n for n in walk_no_nested(rf.node) if isinstance(n, ast.Assign) and unparse(n.targets[0]) == "field_name"]
    ck.ob("execute.resolve_field: the looked-up name is the first node's field name", len(fn_src) == 1 and unparse(fn_src[0].value) in (f"{rp[3]}[0].name.value", "field_node.name.value"),
          rf, fn_src[0] if fn_src else rf.node, construct="resolve_field:name")
    g = rv.one_call("get_field_definition")
    ck.ob("execute.resolve_field looks the field up by the first node's name",
          [unparse(a) for a in g.args][:2] == [f"{rp[0]}.schema", rp[1]], rf, g, construct="resolve_field:lookup")


def _resolver_call(ck, repo):
    f = repo.func(FACTORY, "resolve_field_value_or_error")
    fv = FuncView(f)
    p = f.positional_params  # execution_context, field_definition, field_nodes, resolver, source, info
    rcalls = [c for c in fv.calls() if isinstance(c.func, ast.Name) and c.func.id == p[3]]
    ck.ob("resolve_field_value_or_error: exactly one call site of the effective resolver", len(rcalls) == 1, f,
          rcalls[0] if rcalls else f.node, construct="resolver:one-site", detail=f"{len(rcalls)} call sites")
    if len(rcalls) != 1:
        return
    rc = rcalls[0]
    ck.ob("resolve_field_value_or_error: the resolver call is awaited", fv.is_awaited(rc), f, rc, construct="resolver:awaited")
    ck.ob("resolve_field_value_or_error: the resolver call is not inside a loop or comprehension",
          not fv.enclosing_loops(rc) and fv.in_comprehension(rc) is None, f, rc, construct="resolver:no-loop")
    # every non-exceptional path contains the call exactly once
    node = fv.cfg_node(rc)
    n_paths, bad = 0, 0
    for tr in fv.cfg.simulate(lambda n, env: None):
        if any(x.kind == "handler" for x in tr.nodes):
            continue
        n_paths += 1
        if tr.path.count(node.id) != 1:
            bad += 1
    ck.ob("resolve_field_value_or_error: every non-exceptional path calls the resolver exactly once", n_paths > 0 and bad == 0, f, rc,
          construct="resolver:once-per-path", detail=f"{n_paths} paths, {bad} offending", evals=max(1, n_paths))
    st = fv.stmt_of(rc)
    resname = unparse(st.targets[0]) if isinstance(st, ast.Assign) else None
    plain = [r for r in fv.returns() if resname is not None and unparse(r.value) == resname]
    ck.ob("resolve_field_value_or_error: what the resolver returned is the value handed to completion",
          len(plain) == 1 and set(fv.conditions(plain[0])) == {(f"{p[5]}.is_introspection", "F")}, f, plain[0] if plain else rc, construct="resolver:result-returned")
    ic = fv.maybe_call("introspection_directives_executor")
    ok = ic is not None and set(fv.conditions(ic)) == {(f"{p[5]}.is_introspection", "T")} and resname is not None and \
        [unparse(a) for a in ic.args] == [resname, f"{p[0]}.context", p[5]] and isinstance(fv.stmt_of(ic), ast.Return) and fv.is_awaited(ic)
    ck.ob("resolve_field_value_or_error: only introspection results pass through the hiding executor, which gets (result, ctx, info)", ok, f, ic or rc,
          construct="resolver:introspection-only")
    hs = [h for h in fv.handlers()]
    ok = len(hs) == 1 and hs[0].name and len(hs[0].body) == 1 and isinstance(hs[0].body[0], ast.Return) and unparse(hs[0].body[0].value) == hs[0].name
    ck.ob("resolve_field_value_or_error: a failure is returned as a value (completion turns it into an error)", ok, f, hs[0] if hs else f.node, construct="resolver:failure-as-value")
    args = rc.args
    ck.ob("resolver operands: parent value first", len(args) >= 4 and unparse(args[0]) == p[4], f, rc, construct="resolver:arg0")
    a1 = strip_await(args[1]) if len(args) > 1 else None
    ok = isinstance(a1, ast.Call) and dotted(a1.func) == "coerce_arguments" and isinstance(args[1], ast.Await)
    ck.ob("resolver operands: second is the awaited coerce_arguments(...)", ok, f, rc, construct="resolver:arg1")
    if ok:
        want = [f"{p[1]}.arguments", f"{p[2]}[0]", f"{p[0]}.variable_values", f"{p[0]}.context"]
        ck.ob("coerce_arguments gets (declared arguments, first field node, coerced variables, request context)",
              [unparse(a) for a in a1.args] == want, f, a1, construct="resolver:coerce-operands", detail=f"want {want}")
        ck.ob("coerce_arguments uses the field's arguments coercer", arg_text(a1, None, "coercer") == f"{p[1]}.arguments_coercer", f, a1,
              construct="resolver:coercer-kw")
    ck.ob("resolver operands: third is the request context, fourth the resolve info",
          len(args) >= 4 and unparse(args[2]) == f"{p[0]}.context" and unparse(args[3]) == p[5], f, rc, construct="resolver:arg2-3")
    # the factory's resolve_field passes the baked resolver and the source through
    rf = repo.func(FACTORY, "resolve_field")
    rv = FuncView(rf)
    rp = rf.positional_params
    c = rv.one_call("resolve_field_value_or_error")
    want = [rp[0], rp[6], rp[3], rp[7], rp[2], "info"]
    ck.ob("factory.resolve_field passes (ctx, field definition, nodes, baked resolver, source, info)",
          [unparse(a) for a in c.args] == want and rv.is_awaited(c), rf, c, construct="factory:forward", detail=f"want {want}")
    cv = rv.one_call("complete_value_catching_error")
    a = [unparse(strip_await(x)) for x in cv.args]
    ck.ob("factory.resolve_field completes the resolver's result with the field's declared type and output coercer",
          len(a) == 7 and a[0].startswith("resolve_field_value_or_error(") and a[1:] == ["info", rp[0], rp[3], rp[4], f"{rp[6]}.graphql_type", rp[8]],
          rf, cv, construct="factory:complete")
    bi = rv.one_call("build_resolve_info")
    ck.ob("factory.resolve_field builds the info from (ctx, field definition, nodes, parent type, path, flag)",
          [unparse(x) for x in bi.args] == [rp[0], rp[6], rp[3], rp[1], rp[4], rp[5]], rf, bi, construct="factory:info")
    # GraphQLField.bake binds field_definition=self, resolver=wrapped raw|custom|default, output_coercer from its own type
    fb = repo.func("tartiflette/types/field.py", "GraphQLField.bake")
    bv = FuncView(fb)
    parts = [c for c in bv.calls("partial") if c.args and unparse(c.args[0]) == "resolve_field"]
    ok = False
    if len(parts) == 1:
        kw = kwargs(parts[0])
        w = kw.get("resolver")
        oc = kw.get("output_coercer")
        ok = (unparse(kw.get("field_definition")) == "self" and isinstance(w, ast.Call) and dotted(w.func) == "wraps_with_directives"
              and arg_text(w, None, "func") == f"self.raw_resolver or {fb.positional_params[2]} or default_field_resolver"
              and isinstance(oc, ast.Call) and dotted(oc.func) == "get_output_coercer" and arg_text(oc, 0) == "self.graphql_type")
        st = bv.stmt_of(parts[0])
        ok = ok and isinstance(st, ast.Assign) and unparse(st.targets[0]) == "self.resolver"
    ck.ob("GraphQLField.bake: resolver slot = resolve_field bound to this field, its own resolver (raw > custom default > default) and its own type's coercer",
          ok, fb, parts[0] if parts else fb.node, construct="bake:resolver-slot")


def _defaults(ck, repo):
    f = repo.func(DEFAULT, "default_field_resolver")
    fv = FuncView(f)
    p = f.positional_params
    rets = fv.returns()
    texts = [unparse(r.value) for r in rets]
    want_attr, want_item = f"getattr({p[0]}, {p[3]}.field_name)", f"{p[0]}[{p[3]}.field_name]"
    ck.ob("default_field_resolver reads the attribute named like the field", want_attr in texts, f, f.node, construct="default:attr",
          detail=str(texts))
    ck.ob("default_field_resolver reads the key named like the field", want_item in texts, f, f.node, construct="default:item",
          detail=str(texts))
    ck.ob("default_field_resolver yields None when neither exists", texts and texts[-1] == "None" and set(texts) <= {want_attr, want_item, "None"},
          f, rets[-1] if rets else f.node, construct="default:none")
    for r in rets[:-1]:
        h = fv.try_handlers_around(r)
        ck.ob("default_field_resolver: a failed lookup falls through to the next one (narrow handler, no re-raise)",
              bool(h) and all(all(isinstance(s, ast.Pass) for s in hh.body) for _, hh in h), f, r, construct=f"default:fallthrough:{unparse(r.value)[:20]}")
    t = repo.func(DEFAULT, "default_type_resolver")
    tv = FuncView(t)
    tp = t.positional_params
    texts = [unparse(r.value) for r in tv.returns()]
    want = [f"{tp[0]}['_typename']", f"{tp[0]}._typename", f"{tp[0]}.__class__.__name__"]
    ck.ob("default_type_resolver: `_typename` item, then `_typename` attribute, then the class name", texts == want, t, t.node,
          construct="default:type-resolver", detail=f"got {texts}")


def _completion_chain(ck, repo):
    # leaf coercer per type class, bound in bake() with the type itself
    table = [
        ("tartiflette/types/scalar.py", "GraphQLScalarType", "tartiflette.coercers.outputs.scalar_coercer.scalar_coercer", "scalar_type"),
        ("tartiflette/types/enum.py", "GraphQLEnumType", "tartiflette.coercers.outputs.enum_coercer.enum_coercer", "enum_type"),
        ("tartiflette/types/object.py", "GraphQLObjectType", "tartiflette.coercers.outputs.object_coercer.object_coercer", "object_type"),
        ("tartiflette/types/interface.py", "GraphQLInterfaceType", "tartiflette.coercers.outputs.abstract_coercer.abstract_coercer", "abstract_type"),
        ("tartiflette/types/union.py", "GraphQLUnionType", "tartiflette.coercers.outputs.abstract_coercer.abstract_coercer", "abstract_type"),
    ]
    for rel, cls, want_fq, kwname in table:
        b = repo.func(rel, f"{cls}.bake")
        bv = FuncView(b)
        st = [n for n in walk_no_nested(b.node) if isinstance(n, ast.Assign) and unparse(n.targets[0]) == "self.output_coercer"]
        ok, got = False, None
        if len(st) == 1 and isinstance(st[0].value, ast.Call) and dotted(st[0].value.func) == "partial":
            outer = st[0].value
            inner = kwargs(outer).get("coercer")
            if isinstance(inner, ast.Call) and dotted(inner.func) == "partial" and inner.args:
                got = repo.resolve_name(b.module, unparse(inner.args[0]))
                ok = got == want_fq and arg_text(inner, None, kwname) == "self" and \
                    repo.resolve_name(b.module, unparse(outer.args[0])) == "tartiflette.coercers.outputs.directives_coercer.output_directives_coercer"
        ck.ob(f"{cls}.bake binds output_coercer to {want_fq.split('.')[-1]} with {kwname}=self", ok, b, st[0] if st else b.node,
              construct=f"leaf:{cls}", detail=f"resolved {got}")
    g = repo.func("tartiflette/coercers/outputs/compute.py", "get_output_coercer")
    _wrapper_fold(ck, repo, g, side="outputs")


def _wrapper_fold(ck, repo, g, side):
    """Shared by C01.R9 / C04.R4 / C05.R3 (E13, sa/absint.py): the chain builder is interpreted over every type shape up to
    three wrappers deep and its result compared, as a term, with the composition the specification prescribes -
    whichever way the builder is written (reverse fold over collected wrappers, second loop over collected types,
    recursion, reduce)."""
    from .. import absint
    from ..absint import PartialV, Sym, TypeV
    slot = {"outputs": "output_coercer", "inputs": "input_coercer", "literals": "literal_coercer"}[side]
    pkg = f"tartiflette.coercers.{side}"
    nn = Sym(f"{pkg}.non_null_coercer.non_null_coercer")

    def spec(t, flag):
        if t.kind == "named":
            return Sym(f"{t.name}.{slot}") if t.has_slot else None
        inner = spec(t.inner, flag)
        if t.kind == "nonnull":
            kw = {"graphql_type": t} if side == "inputs" else {}
            return PartialV(nn, (), {**kw, "inner_coercer": inner})
        if side == "outputs":
            fn = Sym(f"{pkg}.list_coercer.list_coercer_" + ("concurrently" if flag else "sequentially"))
            return PartialV(fn, (), {"item_type": t.inner, "inner_coercer": inner})
        fn = Sym(f"{pkg}.list_coercer.list_coercer")
        kw = {"is_non_null_item_type": t.inner.kind == "nonnull"} if side == "literals" else {}
        return PartialV(fn, (), {**kw, "inner_coercer": inner})

    def same(got, want):
        """Term equality; the do-nothing leaf (spec None) is any lambda that answers None."""
        if want is None:
            return isinstance(got, absint.LambdaV) and isinstance(got.node.body, ast.Constant) and got.node.body.value is None
        if isinstance(want, PartialV):
            if not isinstance(got, PartialV) or absint.norm(got.func) != absint.norm(want.func) or got.args or set(got.kwargs) != set(want.kwargs):
                return False
            return all(same(got.kwargs[k], v) if k == "inner_coercer" else absint.norm(got.kwargs[k]) == absint.norm(v) for k, v in want.kwargs.items())
        return absint.norm(got) == absint.norm(want)

    def show(want):
        if want is None:
            return "<lambda: None>"
        if isinstance(want, PartialV):
            return "partial(" + ", ".join([repr(want.func)] + [f"{k}={show(v) if k == 'inner_coercer' else repr(v)}" for k, v in sorted(want.kwargs.items())]) + ")"
        return repr(want)

    helpers = [g] + [h for h in g.module.funcs.values() if h is not g and h.parent is None and h.cls is None]
    uni = [u for h in helpers for u in absint.uniformity_violations(h)]
    ck.ob(f"{g.name}: treats every nesting level alike (no counters, lengths or integer arithmetic)", not uni, g, g.node, construct="fold:uniform", detail=str(uni))
    flags = (True, False) if side == "outputs" else (None,)
    n = 0
    for t in absint.shapes(3):
        for flag in flags:
            it = absint.Interp(repo, g.module)
            args = [t] + ([flag] if side == "outputs" else [])
            try:
                got = it.run(g, args)
                err = None
            except absint.Unsupported as e:
                raise AnalysisError(f"{g.short}: cannot be interpreted over type shapes: {e}")
            except absint.PyRaise as e:
                got, err = None, f"raises {e.name}"
            want = spec(t, flag)
            n += 1
            tag = repr(t) + ("" if flag is None else f":concurrently={int(flag)}")
            ck.ob(f"{g.name}({tag}) composes the coercers the type expression prescribes, outermost wrapper outermost", err is None and same(got, want), g, g.node,
                  construct=f"fold:{tag}", detail=f"got {err or got!r}; the type prescribes {show(want)}")
    ck.count(f"{side}_chain_shapes", n, 28 if side == "outputs" else 14)


def _type_resolver(ck, repo):
    f = repo.func("tartiflette/types/type.py", "GraphQLAbstractType.get_type_resolver")
    fv = FuncView(f)
    p = f.positional_params
    atoms = Atoms({f"{p[1]} in self._fields_type_resolvers": "field_level", "self.type_resolver": "type_level",
                   f"self._fields_type_resolvers.get({p[1]})": "field_level",
                   f"self._fields_type_resolvers.get({p[1]}, None)": "field_level"})
    atoms.sentinels = {k for k, v in f.module.assigns.items() if isinstance(v, ast.Call) and unparse(v) == "object()"}
    import itertools
    for fl, tl in itertools.product([False, True], repeat=2):
        val = {"field_level": fl, "type_level": tl}
        want = f"self._fields_type_resolvers[{p[1]}]" if fl else ("self.type_resolver" if tl else p[2])
        got = set()
        for tr in fv.cfg.simulate(lambda n, env: evaluate(n.ast, env, val, atoms)):
            last = tr.last_stmt()
            v = last.ast.value if last is not None and isinstance(last.ast, ast.Return) else None
            if isinstance(v, ast.BoolOp) and isinstance(v.op, ast.Or):
                pick = None
                for e in v.values[:-1]:
                    r = evaluate(e, tr.env, val, atoms)
                    if r:
                        pick = e
                        break
                v = pick if pick is not None else v.values[-1]
            got.add(_pick(v, tr.env, val, atoms) if v is not None else "<none>")
        ck.ob(f"get_type_resolver precedence {val}", got == {want}, f, f.node, construct=f"table:field={int(fl)},type={int(tl)}",
              detail=f"got {sorted(got)}, want {want}" + atoms.note())
    a = repo.func("tartiflette/coercers/outputs/abstract_coercer.py", "abstract_coercer")
    av = FuncView(a)
    ap = a.positional_params
    c = av.one_call("get_type_resolver")
    ck.ob("abstract_coercer keys the field-level resolver by '<Parent>.<field>' and falls back to the schema default",
          arg_text(c, 0) == f"f'{{{ap[1]}.parent_type.name}}.{{{ap[1]}.field_name}}'" and arg_text(c, 1) == f"{ap[2]}.schema.default_type_resolver"
          and unparse(c.func.value) == ap[5], a, c, construct="abstract:key")
    st = av.stmt_of(c)
    rname = unparse(st.targets[0]) if isinstance(st, ast.Assign) else None
    tcalls = [x for x in av.calls() if isinstance(x.func, ast.Name) and x.func.id == rname]
    ok = len(tcalls) == 1 and [unparse(x) for x in tcalls[0].args] == [ap[0], f"{ap[2]}.context", ap[1], ap[5]]
    ck.ob("abstract_coercer calls the chosen type resolver once with (result, ctx, info, abstract type)", ok, a,
          tcalls[0] if tcalls else a.node, construct="abstract:call")
    # resolved on the function's path (intermediates substituted), calls bound through the callee's signature
    from ..pathtab import outcome_rows as _rows
    from ..q import bound_args
    arow = [r_ for r_ in _rows(av) if r_["exit"] == "return_exit"]
    sub_ = arow[0]["sym"]["__sub__"] if arow else (lambda e_: e_)
    ev = av.one_call("ensure_valid_runtime_type")
    eb = bound_args(repo, a.module, ev, sub_) or {}
    tcall_txt = unparse(sub_(tcalls[0])) if tcalls else None
    ep = repo.func("tartiflette/coercers/outputs/abstract_coercer.py", "ensure_valid_runtime_type").positional_params
    ok = tcalls and eb.get(ep[0]) == tcall_txt and eb.get(ep[2]) == ap[5]
    ck.ob("abstract_coercer validates the resolver's answer against this abstract type", bool(ok), a, ev, construct="abstract:validate", detail=str(eb))
    cov = av.one_call("complete_object_value")
    cb = bound_args(repo, a.module, cov, sub_) or {}
    cpp = repo.func("tartiflette/coercers/outputs/common.py", "complete_object_value").positional_params
    ev_txt = unparse(sub_(ev))
    ok = len(cpp) >= 6 and cb.get(cpp[5]) == ev_txt and [cb.get(x) for x in cpp[1:5]] == [ap[1], ap[2], ap[3], ap[4]]
    ck.ob("abstract_coercer completes the value as the validated runtime object type", ok, a, cov, construct="abstract:complete", detail=str(cb))
    # complete_object_value executes the merged sub-selection of the runtime type
    co = repo.func("tartiflette/coercers/outputs/common.py", "complete_object_value")
    cv = FuncView(co)
    cp = co.positional_params
    ef = cv.one_call("execute_fields")
    sub = cv.one_call("collect_subfields")
    ok = [unparse(strip_await(x)) for x in ef.args][:4] == [cp[2], cp[5], cp[0], cp[4]] and \
        [unparse(x) for x in sub.args] == [cp[2], cp[5], cp[3]] and strip_await(ef.args[4]) is sub
    ck.ob("complete_object_value executes the sub-fields collected for (return type, merged field nodes) on the value, under the same path",
          ok, co, ef, construct="object:execute")
    oc = repo.func("tartiflette/coercers/outputs/object_coercer.py", "object_coercer")
    ov = FuncView(oc)
    op = oc.positional_params
    c = ov.one_call("complete_object_value")
    ck.ob("object_coercer completes with its own object type", [unparse(x) for x in c.args] == op[:6], oc, c, construct="object:forward")
