"""C10 - built-in scalars obey their coercion laws (guards, not values)."""
from __future__ import annotations

import ast

from .. import scalars
from ..model import dotted, unparse, walk_no_nested
from ..q import FuncView, arg_text

EXPLANATION = (
    "For the five built-in scalars x three directions: every successful return is syntactically of the wire type, "
    "the guards required by the specification (integrality, inclusive 32-bit range with evaluated constants, "
    "bool rejection, finiteness, exact input type) dominate every successful return, each parse_literal accepts "
    "exactly the specified literal kinds, and every failure exit is a TypeError / the invalid value. Decides the "
    "guards, not the value-level laws (same value, idempotence)."
)


def check(ck):
    repo = ck.repo
    with ck.rule("R1"):
        scalars.check_wire_types(ck, repo)
    with ck.rule("R2"):
        scalars.check_guards(ck, repo)
    with ck.rule("R3"):
        scalars.check_literal_kinds(ck, repo)
        # the lark SDL token transformer casts numbers (the reason IntValueNode.value may be an int)
        tt = repo.cls("tartiflette/language/parsers/lark/transformers/token_transformer.py", "TokenTransformer")
        for meth, ctor in (("int_value", "int"), ("float_value", "float")):
            m = tt.methods.get(meth)
            ok = m is not None and any(isinstance(c.func, ast.Name) and c.func.id == ctor for c in FuncView(m).calls())
            ck.ob(f"SDL literals: TokenTransformer.{meth} casts with {ctor}() (value nodes from SDL carry numbers, from queries text)", ok,
                  m, m.node if m else tt.node, where=f"{tt.module.relpath}::TokenTransformer.{meth}", construct=f"sdl-cast:{meth}")
    with ck.rule("R4"):
        scalars.check_failure_exits(ck, repo)
    with ck.rule("R5"):
        # the three generic scalar coercers delegate to the scalar's own method and turn invalid into failure
        for rel, method in (("tartiflette/coercers/outputs/scalar_coercer.py", "coerce_output"),
                            ("tartiflette/coercers/inputs/scalar_coercer.py", "coerce_input"),
                            ("tartiflette/coercers/literals/scalar_coercer.py", "parse_literal")):
            f = repo.func(rel, "scalar_coercer")
            fv = FuncView(f)
            c = fv.maybe_call(method)
            first = {"coerce_output": f.positional_params[0], "coerce_input": f.positional_params[2], "parse_literal": f.positional_params[1]}[method]
            ok = c is not None and unparse(c.func.value) == "scalar_type" and [unparse(a) for a in c.args] == [first]
            ck.ob(f"{rel.split('/')[2]}.scalar_coercer delegates to scalar_type.{method}({first})", ok, f, c or f.node, construct=f"delegate:{method}")
        # the wrappers around the generic coercers short-circuit exactly null
        from .c04 import input_null_wrapper_table, _input_wrappers
        input_null_wrapper_table(ck, repo)
        # ... and the list / non-null wrappers hand on what the scalar returned, not the raw value (C04.R5)
        _input_wrappers(ck, repo)
        for rel, deco in (("tartiflette/coercers/inputs/scalar_coercer.py", "tartiflette.coercers.inputs.null_coercer.null_coercer_wrapper"),
                          ("tartiflette/coercers/outputs/scalar_coercer.py", "tartiflette.coercers.outputs.null_coercer.null_coercer_wrapper"),
                          ("tartiflette/coercers/literals/scalar_coercer.py", "tartiflette.coercers.literals.null_and_variable_coercer.null_and_variable_coercer_wrapper")):
            f = repo.func(rel, "scalar_coercer")
            from ..q import decorator_names
            got = [repo.resolve_name(f.module, d) for d in decorator_names(f)]
            ck.ob(f"{rel.split('/')[2]}.scalar_coercer is wrapped by exactly its side's null wrapper", got == [deco], f, f.node, construct=f"wrapper:{rel.split('/')[2]}", detail=str(got))
        ow = repo.func("tartiflette/coercers/outputs/null_coercer.py", "null_coercer_wrapper.wrapper")
        from ..q import FuncView as _FV
        tests = [n.text() for n in _FV(ow).cfg.nodes if n.kind == "test"]
        ck.ob("outputs.null_coercer_wrapper short-circuits exactly None (0, 0.0, \"\" and false are serialised by the scalar)", tests == [f"{ow.positional_params[0]} is None"], ow, ow.node,
              construct="wrapper:outputs:is-none", detail=str(tests))
        # Scalar decorator binds the three methods of the implementation
        b = repo.func("tartiflette/scalar/scalar.py", "Scalar.bake")
        st = {unparse(n.targets[0]): unparse(n.value) for n in walk_no_nested(b.node) if isinstance(n, ast.Assign) and isinstance(n.targets[0], ast.Attribute)}
        for m in scalars.DIRECTIONS:
            ck.ob(f"Scalar.bake binds {m} of the registered implementation", st.get(f"scalar.{m}") == f"self._implementation.{m}", b, b.node, construct=f"bind:{m}")
        # each built-in module registers its own class under its own name
        for name, (rel, cls, _) in list(scalars.SCALARS.items()) + [(k, v + (None,)) for k, v in scalars.DATE_SCALARS.items()]:
            bk = repo.func(scalars.BUILTINS + rel, "bake")
            calls = [c for c in FuncView(bk).calls() if isinstance(c.func, ast.Call) and dotted(c.func.func) == "Scalar"]
            ok = len(calls) == 1 and arg_text(calls[0].func, 0) == repr(name) and unparse(calls[0].args[0]) == f"{cls}()"
            ck.ob(f"built-in module registers {cls} as scalar {name}", ok, bk, calls[0] if calls else bk.node, construct=f"register:{name}")
    with ck.rule("R6"):
        # "a literal and a variable carrying the same JSON value coerce to the same result": the argument decision table
        # (C05.R1) - a variable-bound argument is null exactly when the variable's value `is None`, so 0 / false / "" are
        # values, as their literals are
        from . import c05
        c05._argument_table(ck, repo)
        # ... and a variable is let into a position only when its declared type is the position's type (up to nullability): nothing
        # converts the value afterwards, so a tolerated `Int` variable on an `ID` argument would deliver 5 where the literal delivers "5"
        from .c06 import _variable_usage_tables
        _variable_usage_tables(ck, repo)
        # ... and the literal coercers accept exactly what the variable coercers accept, items of list literals included (defaults
        # are literals the validation rule never looks at): the literal-side tables of C05.R3
        from . import c05
        c05._siblings(ck, repo)
