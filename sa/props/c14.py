"""C14 - subscriptions answer every source event once, in order."""
from __future__ import annotations

import ast

from ..model import AnalysisError, dotted, unparse, walk_no_nested
from ..q import FuncView, arg_text, callee_last, contains, kwargs, strip_await

EXPLANATION = (
    "The loop over the source stream yields exactly once per iteration on every path, the yielded value is the awaited "
    "execute(...) with the loop variable in the root-value slot, and the loop has no continue/break/return/handler; the "
    "two pre-flight exits (parsing errors, variable/operation errors) yield once and return before the source is "
    "created; create_source_event_stream calls the registered generator only without errors, with spec-coerced "
    "arguments; the pass-through wrappers re-yield every item unconditionally. Per-event semantics are the C01/C02 "
    "obligations of the same execute. Not decided: behaviour of the user's generator, back-pressure."
)
ENG = "tartiflette/engine.py"
EXE = "tartiflette/execution/execute.py"


def _once_per_iteration(fv: FuncView, loop, effect_nodes) -> tuple:
    head = fv.cfg.node_of(loop)
    n_paths, bad = 0, []
    ids = {fv.cfg_node(e).id for e in effect_nodes}
    for tr in fv.cfg.simulate(lambda n, env: None):
        p = tr.path
        if head.id not in p:
            continue
        i = p.index(head.id)
        rest = p[i + 1:]
        body = rest[: rest.index(head.id)] if head.id in rest else rest
        if not body or fv.cfg.nodes[body[0]].kind in ("return_exit", "raise_exit"):
            continue
        n_paths += 1
        cnt = sum(1 for x in body if x in ids)
        if cnt != 1:
            bad.append([fv.cfg.nodes[x].text()[:30] for x in body])
    return n_paths, bad


def check(ck):
    repo = ck.repo
    with ck.rule("R1"):
        f = repo.func(ENG, "Engine._perform_subscription")
        fv = FuncView(f)
        p = f.positional_params
        loops = [l for l in fv.loops()]
        ck.ob("_perform_subscription: a single loop, over the source event stream", len(loops) == 1 and isinstance(loops[0], ast.AsyncFor) and unparse(loops[0].iter) == "source_event_stream",
              f, loops[0] if loops else f.node, construct="events:loop")
        lp = loops[0]
        ys = [y for y in fv.yields() if contains(lp, y)]
        n_paths, bad = _once_per_iteration(fv, lp, [fv.stmt_of(y) for y in ys])
        ck.ob("_perform_subscription: every path through one iteration yields exactly once", n_paths > 0 and not bad and len(ys) == 1, f, lp, construct="events:once",
              detail=f"{n_paths} body path(s); offending {bad[:2]}", evals=max(1, n_paths))
        ck.ob("_perform_subscription: no continue / break / return / handler inside the event loop",
              not any(isinstance(n, (ast.Continue, ast.Break, ast.Return, ast.Try)) for n in walk_no_nested(lp)), f, lp, construct="events:no-skip")
        ok = False
        if len(ys) == 1 and isinstance(ys[0], ast.Yield) and isinstance(ys[0].value, ast.Await) and isinstance(ys[0].value.value, ast.Call):
            c = ys[0].value.value
            ev = unparse(lp.target)
            ok = dotted(c.func) == "execute" and [unparse(a) for a in c.args] == ["self._schema", p[2], "self._build_response", ev, p[5], p[6], p[4]]
        ck.ob("_perform_subscription: the yielded value is the awaited execute(schema, document, response builder, *event as root value*, context, variables, operation name)",
              ok, f, ys[0] if ys else lp, construct="events:execute-operands")
        got = repo.resolve_name(f.module, "execute")
        ck.ob("the per-event executor is execution.execute.execute (same semantics as a query: C01/C02)", got == "tartiflette.execution.execute.execute", f, f.node,
              construct="events:same-execute", detail=str(got))
        after = [s for s in f.body if s is not lp and f.body.index(s) > f.body.index(lp)] if lp in f.body else ["?"]
        ck.ob("_perform_subscription: the stream ends when the source ends (nothing after the loop)", not after, f, lp, construct="events:ends-with-source")
    with ck.rule("R2"):
        # the source is started with arguments coerced from the *coerced* variables: the CoerceVariableValues table (C04.R1) - an
        # explicit null stays null, a default applies only to an omitted variable
        from .c04 import _variable_table
        _variable_table(ck, repo)
        f = repo.func(ENG, "Engine._perform_subscription")
        fv = FuncView(f)
        p = f.positional_params
        cs = fv.maybe_call("create_source_event_stream")
        ck.ob("_perform_subscription: the source is created only without parsing/validation errors", cs is not None and fv.guarded(cs, lambda t: t == p[3], "F"), f, cs or f.node,
              construct="preflight:gate")
        pre = [y for y in fv.yields() if fv.guarded(y, lambda t: t == p[3], "T")]
        ok = len(pre) == 1 and unparse(pre[0].value) == f"await self._build_response(errors={p[3]})"
        ck.ob("_perform_subscription: parsing errors yield one errors-only response", ok, f, pre[0] if pre else f.node, construct="preflight:parse-errors")
        if pre:
            st = fv.stmt_of(pre[0])
            blk = fv.parent(st)
            body = blk.body if isinstance(blk, ast.If) else []
            ok = len(body) == 2 and body[0] is st and isinstance(body[1], ast.Return)
            ck.ob("_perform_subscription: ... and then returns (the source is never started)", ok, f, st, construct="preflight:parse-errors-return")
        dy = [y for y in fv.yields() if fv.guarded(y, lambda t: t == "isinstance(source_event_stream, dict)", "T")]
        ok = len(dy) == 1 and unparse(dy[0].value) == "source_event_stream"
        ck.ob("_perform_subscription: an errors-only answer from the pre-flight is yielded once", ok, f, dy[0] if dy else f.node, construct="preflight:dict")
        if dy:
            st = fv.stmt_of(dy[0])
            blk = fv.parent(st)
            body = blk.body if isinstance(blk, ast.If) else []
            ck.ob("_perform_subscription: ... and then returns", len(body) == 2 and isinstance(body[1], ast.Return), f, st, construct="preflight:dict-return")
        lp = [l for l in fv.loops()][0]
        ck.ob("_perform_subscription: the event loop runs only for a real stream", fv.guarded(lp, lambda t: t == "isinstance(source_event_stream, dict)", "F") and
              fv.guarded(lp, lambda t: t == p[3], "F"), f, lp, construct="preflight:loop-gate")
        want = [p[1], p[2], "self._build_response", p[7], p[5], p[6], p[4]]
        ck.ob("_perform_subscription: the pre-flight gets (schema, document, response builder, initial value, context, variables, operation name)",
              cs is not None and [unparse(a) for a in cs.args] == want and fv.is_awaited(cs), f, cs or f.node, construct="preflight:operands")
        c = repo.func(EXE, "create_source_event_stream")
        from ..q import inlined_view as _iv14
        cv = _iv14(repo, c, max_stmts=25)   # helpers that find the root field are part of it
        _source_rows(ck, repo, c)
        sb = repo.func("tartiflette/subscription/subscription.py", "Subscription.bake")
        sv2 = FuncView(sb)
        rs2 = sv2.raises()
        nsf = [r for r in rs2 if "NotSubscriptionField" in unparse(r.exc)]
        mi = [r for r in rs2 if "MissingImplementation" in unparse(r.exc)]
        asg = [n for n in walk_no_nested(sb.node) if isinstance(n, ast.Assign) and unparse(n.targets[0]) == "field.subscribe"]
        ok = len(nsf) == 1 and ("parent_type_name == schema.subscription_operation_name", "F") in sv2.conditions(nsf[0]) and len(asg) == 1 and \
            ("parent_type_name == schema.subscription_operation_name", "T") in sv2.conditions(asg[0]) and len(mi) == 1 and ("self._implementation", "F") in sv2.conditions(mi[0])
        ck.ob("Subscription.bake: a generator is attached only to a field of the subscription root, and only when one was given", ok, sb, asg[0] if asg else sb.node, construct="source:bake-guards")
        rb = [r for r in cv.returns() if cv.guarded(r, lambda t: t == "errors", "T")]
        ck.ob("create_source_event_stream: with errors it returns one errors-only response (a dict)", len(rb) == 1 and unparse(strip_await(rb[0].value)) == "response_builder(errors=errors)",
              c, rb[0] if rb else c.node, construct="source:errors")
        b = repo.func("tartiflette/execution/response.py", "build_response")
        rets = FuncView(b).returns()
        ck.ob("build_response always returns a dict (what the pre-flight test recognises)", bool(rets) and all(isinstance(r.value, ast.Dict) for r in rets), b, b.node,
              construct="source:dict-shape")
        from .c07 import single_root_traversal
        single_root_traversal(ck, repo)
    with ck.rule("R3"):
        for rel, name, src in ((ENG, "Engine.subscribe", "_subscription_executor"), ("tartiflette/utils/directives.py", "subscription_generator", "generator"),
                               ("tartiflette/utils/directives.py", "directive_generator", "directive_func")):
            f = repo.func(rel, name)
            fv = FuncView(f)
            loops = [l for l in fv.loops() if isinstance(l, ast.AsyncFor)]
            ok = len(loops) == 1 and callee_last(loops[0].iter) == src
            if ok:
                lp = loops[0]
                body = lp.body
                ok = len(body) == 1 and isinstance(body[0], ast.Expr) and isinstance(body[0].value, ast.Yield) and unparse(body[0].value.value) == unparse(lp.target) and not lp.orelse
            ck.ob(f"{name}: re-yields every item of the wrapped stream, unconditionally and unchanged", ok, f, loops[0] if loops else f.node, construct=f"passthrough:{name}")
            ys = fv.yields()
            ck.ob(f"{name}: yields nothing else", len(ys) == 1, f, f.node, construct=f"passthrough:{name}:only")
        s = repo.func("tartiflette/subscription/subscription.py", "Subscription.bake")
        st = {unparse(n.targets[0]): unparse(n.value) for n in walk_no_nested(s.node) if isinstance(n, ast.Assign)}
        ck.ob("Subscription.bake stores the registered generator as the field's source", st.get("field.subscribe") == "self._implementation", s, s.node, construct="wiring:subscribe")
        e = repo.func(ENG, "Engine.subscribe")
        c = FuncView(e).maybe_call("_subscription_executor")
        ok = c is not None and [unparse(a) for a in c.args] == ["self._schema", "document", "errors", e.positional_params[2], e.positional_params[3], e.positional_params[4], e.positional_params[5]]
        ck.ob("Engine.subscribe forwards (schema, document, errors, operation name, context, variables, initial value)", ok, e, c or e.node, construct="wiring:forward")
        sc = repo.func("tartiflette/schema/schema.py", "GraphQLSchema.bake_execute")
        w = [c for c in FuncView(sc).calls("wraps_with_directives") if arg_text(c, None, "is_async_generator") == "True"]
        ok = len(w) == 1 and arg_text(w[0], 1) == "'on_schema_subscription'" and arg_text(w[0], 2) == sc.positional_params[2]
        ck.ob("bake_execute wraps the subscription executor with the generator-aware wrapper", ok, sc, w[0] if w else sc.node, construct="wiring:generator-wrapper")


def _source_rows(ck, repo, c):
    """Path-outcome rows of create_source_event_stream: on the path that starts the source, every operand resolved back to the
    producers' results (intermediates, tuple unpacking and a flattened `await` substituted; the results of the producer
    calls stand by role)."""
    from ..pathtab import outcome_rows
    from ..q import inlined_view as _iv14
    cv = _iv14(repo, c, max_stmts=25)
    p = c.positional_params
    producers = {"collect_fields": "FIELDS", "get_operation_root_type": "ROOT_TYPE", "build_resolve_info": "INFO"}

    def opaque(v):
        e = strip_await(v)
        if isinstance(e, ast.Call) and callee_last(e) in producers:
            return producers[callee_last(e)]
        if isinstance(e, ast.Subscript) and isinstance(strip_await(e.value), ast.Call) and callee_last(strip_await(e.value)) == "build_execution_context" and isinstance(e.slice, ast.Constant):
            return "CONTEXT" if e.slice.value == 0 else "ERRORS"
        return None

    rows = [r for r in outcome_rows(cv, opaque=opaque) if r["exit"] == "return_exit" and r["ret"] is not None and isinstance(strip_await(r["ret"]), ast.Call) and callee_last(strip_await(r["ret"])) == "subscribe"]
    if not rows:
        raise AnalysisError("create_source_event_stream: no path returns the source generator's stream")
    firsts = ["FIELDS[list(FIELDS.keys())[0]]", "list(FIELDS.items())[0][1]", "next(iter(FIELDS.items()))[1]", "next(iter(FIELDS.values()))", "list(FIELDS.values())[0]",
              "FIELDS[next(iter(FIELDS))]", "FIELDS[next(iter(FIELDS.keys()))]", "FIELDS[list(FIELDS)[0]]"]
    all_rows = outcome_rows(cv, opaque=opaque)
    n_unknown = n_nogen = 0
    for r in all_rows:
        fd_tests = [(t, o) for t, o in r["conds"] if t.replace("not ", "").strip().startswith("get_field_definition(")]
        fd_truth = {}
        for t, o in fd_tests:
            neg = t.strip().startswith("not ")
            key = "subscribe" if t.rstrip().endswith(".subscribe") else "definition"
            fd_truth[key] = o if not neg else ("F" if o == "T" else "T")
        err = [o for t, o in r["conds"] if t.strip() in ("ERRORS", "not ERRORS")]
        err_truth = None
        if err:
            t0 = [t for t, o in r["conds"] if t.strip() in ("ERRORS", "not ERRORS")][-1]
            err_truth = err[-1] if t0.strip() == "ERRORS" else ("F" if err[-1] == "T" else "T")
        starts = r["exit"] == "return_exit" and r["ret"] is not None and isinstance(strip_await(r["ret"]), ast.Call) and callee_last(strip_await(r["ret"])) == "subscribe"
        where = r["last"] or c.node
        if starts:
            ck.ob("create_source_event_stream: the registered generator is called only without errors, and its stream is returned", err_truth == "F", c, where, construct="source:gate")
            ck.ob("create_source_event_stream: the generator is started only for a known field that has one", fd_truth.get("definition") == "T" and fd_truth.get("subscribe") == "T", c, where,
                  construct="source:known-field", detail=str(fd_truth))
        if err_truth == "F" and fd_truth.get("definition") == "F":
            n_unknown += 1
            ck.ob("create_source_event_stream: an unknown subscription field is an error (the catch-all renders it), not a call", r["exit"] == "raise_exit", c, where, construct="source:unknown-field")
        if err_truth == "F" and fd_truth.get("definition") == "T" and fd_truth.get("subscribe") == "F":
            n_nogen += 1
            ck.ob("create_source_event_stream: a field without a registered generator is an error, not a call", r["exit"] == "raise_exit", c, where, construct="source:no-generator")
    ck.ob("create_source_event_stream: has a path for an unknown field and one for a field without generator", n_unknown >= 1 and n_nogen >= 1, c, c.node, construct="source:guards",
          detail=f"unknown-field paths {n_unknown}, no-generator paths {n_nogen}")
    cf = [x for x in cv.calls("collect_fields")]
    ok = False
    if len(cf) == 1 and rows:
        sub_ = rows[0]["sym"]["__sub__"]
        a_ = [unparse(sub_(x)) for x in cf[0].args]
        ok = a_ == ["CONTEXT", "ROOT_TYPE", "CONTEXT.operation.selection_set"] and cv.is_awaited(cf[0])
    ck.ob("create_source_event_stream: root fields are collected from the selected operation's selection set", ok, c, cf[0] if cf else c.node, construct="source:collect")
    bi = [x for x in cv.calls("build_resolve_info")]
    ok = False
    if len(bi) == 1 and rows:
        sub_ = rows[0]["sym"]["__sub__"]
        a_ = [unparse(sub_(x)) for x in bi[0].args]
        ok = len(a_) == 5 and a_[0] == "CONTEXT" and a_[1].startswith(f"get_field_definition({p[0]}, ROOT_TYPE, ") and a_[3] == "ROOT_TYPE" and a_[4].startswith("Path(None, ")
    ck.ob("create_source_event_stream: the generator's info describes that field at its response path", ok, c, bi[0] if bi else c.node, construct="source:info")
    for r in rows:
        got = unparse(strip_await(r["ret"]))
        ok_root = ok_ops = False
        for nodes in firsts:
            node = f"{nodes}[0]"
            fd = f"get_field_definition({p[0]}, ROOT_TYPE, {node}.name.value)"
            if got.startswith(f"{fd}.subscribe("):
                ok_root = True
                want = (f"{fd}.subscribe({p[3]}, await coerce_arguments({fd}.arguments, {node}, CONTEXT.variable_values, CONTEXT.context, coercer={fd}.arguments_coercer), "
                        f"CONTEXT.context, INFO)")
                ok_ops = ok_ops or got == want
        ck.ob("create_source_event_stream: the source is the first collected root field of the operation's root type", ok_root, c, r["last"] or c.node, construct="source:root-field",
              detail=got[:200])
        ck.ob("create_source_event_stream: the generator gets (root value, spec-coerced arguments, context, info)", ok_ops, c, r["last"] or c.node, construct="source:operands",
              detail=got[:400])
