"""Minimal unified-diff applier (in memory), used to replay the seeded changes kept under /verif/seeded
against the checkers without touching /repo."""
from __future__ import annotations

import os
import re
from typing import Dict, Optional

HUNK = re.compile(r"^@@ -(\d+)(?:,(\d+))? \+(\d+)(?:,(\d+))? @@")


def apply_unified_diff(root: str, diff_text: str) -> Optional[Dict[str, str]]:
    """Returns {relpath: new source} or None when a hunk does not apply to the current tree."""
    out: Dict[str, str] = {}
    lines = diff_text.splitlines(keepends=True)
    i = 0
    cur = None
    src_lines = None
    offset = 0
    while i < len(lines):
        l = lines[i]
        if l.startswith("+++ "):
            if cur is not None:
                out[cur] = "".join(src_lines)
            path = l[4:].strip()
            if path.startswith("b/"):
                path = path[2:]
            cur = path
            full = os.path.join(root, cur)
            if path == "/dev/null":
                cur = None
            elif os.path.exists(full):
                with open(full, encoding="utf-8") as fh:
                    src_lines = fh.read().splitlines(keepends=True)
            else:
                src_lines = []
            offset = 0
            i += 1
            continue
        m = HUNK.match(l)
        if m and cur is not None:
            start = int(m.group(1))
            i += 1
            old, new = [], []
            while i < len(lines) and not lines[i].startswith(("@@", "diff --git", "--- ", "+++ ")):
                h = lines[i]
                if h.startswith("\\"):
                    i += 1
                    continue
                if h.startswith("-"):
                    old.append(h[1:])
                elif h.startswith("+"):
                    new.append(h[1:])
                else:
                    old.append(h[1:] if h.startswith(" ") else h)
                    new.append(h[1:] if h.startswith(" ") else h)
                i += 1
            pos = start - 1 + offset if old else start + offset
            # tolerate small drifts: search nearby for the old block
            found = None
            for delta in sorted(range(-40, 41), key=abs):
                p = pos + delta
                if p >= 0 and [x.rstrip("\n") for x in src_lines[p:p + len(old)]] == [x.rstrip("\n") for x in old]:
                    found = p
                    break
            if found is None:
                return None
            src_lines[found:found + len(old)] = new
            offset += len(new) - len(old) + (found - pos)
            continue
        i += 1
    if cur is not None:
        out[cur] = "".join(src_lines)
    return out
