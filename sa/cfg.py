"""E2 - statement-level control-flow graph with short-circuit expansion.

Nodes are simple statements, *atomic* boolean tests (``if a and not b`` becomes
two test nodes with T/F edges), loop heads and exception-handler heads.  Every
node built inside a ``try`` body has an ``exc`` edge to each handler of the
innermost enclosing ``try`` (and outwards while no handler is broad).

Queries: dominators, post-dominators, reachability, path simulation under a
decision callback (used by the finite decision tables, E3).
"""
from __future__ import annotations

import ast
from typing import Callable, Dict, Iterable, List, Optional, Set, Tuple

from .model import AnalysisError, Func, dotted, strip_docstring, unparse

BROAD = {"Exception", "BaseException"}


class Node:
    __slots__ = ("id", "kind", "ast", "label", "loop", "handler_of", "lineno")

    def __init__(self, nid: int, kind: str, node=None, label: str = ""):
        self.id = nid
        self.kind = kind  # entry | return_exit | raise_exit | stmt | test | for | while | handler | with
        self.ast = node
        self.label = label
        self.loop = None
        self.handler_of = None
        self.lineno = getattr(node, "lineno", 0)

    def text(self) -> str:
        if self.ast is None:
            return self.kind
        if self.kind in ("for",):
            return f"for {unparse(self.ast.target)} in {unparse(self.ast.iter)}"
        if self.kind == "handler":
            return f"except {unparse(self.ast.type) if self.ast.type else ''}"
        if self.kind == "with":
            return "with " + ", ".join(unparse(i) for i in self.ast.items)
        return unparse(self.ast)

    def __repr__(self):
        return f"<{self.id}:{self.kind}:{self.text()[:50]}>"


Edge = Tuple[int, int, str]


class CFG:
    def __init__(self, func: Func):
        self.func = func
        self.nodes: List[Node] = []
        self.succ: Dict[int, List[Tuple[int, str]]] = {}
        self.pred: Dict[int, List[Tuple[int, str]]] = {}
        self.entry = self._new("entry")
        self.return_exit = self._new("return_exit")
        self.raise_exit = self._new("raise_exit")
        self._loops: List[Tuple[Node, list, list]] = []  # (head, break_outs, continue_target)
        self._tries: List[List[Node]] = []  # stack of handler-head lists
        self.stmt_node: Dict[int, Node] = {}  # id(ast stmt) -> first node
        self.test_nodes: Dict[int, List[Node]] = {}  # id(ast If/While/IfExp-less stmt) -> test nodes
        outs = self._block(strip_docstring(func.node.body), [(self.entry.id, "next")])
        for (n, lab) in outs:
            self._edge(n, self.return_exit.id, lab)  # implicit return None

    # -- construction ------------------------------------------------------
    def _new(self, kind, node=None, label="") -> Node:
        n = Node(len(self.nodes), kind, node, label)
        self.nodes.append(n)
        self.succ[n.id] = []
        self.pred[n.id] = []
        if self._tries_active() and kind not in ("entry", "return_exit", "raise_exit", "handler"):
            self._exc_edges(n)
        return n

    def _tries_active(self) -> bool:
        return bool(getattr(self, "_tries", None))

    def _exc_edges(self, n: Node):
        for handlers in reversed(self._tries):
            broad = False
            for h in handlers:
                self._edge(n.id, h.id, "exc")
                if _is_broad(h.ast):
                    broad = True
            if broad:
                return
        # may escape the function
        self._edge(n.id, self.raise_exit.id, "exc")

    def _edge(self, a: int, b: int, label: str):
        if (b, label) not in self.succ[a]:
            self.succ[a].append((b, label))
            self.pred[b].append((a, label))

    def _connect(self, preds, node: Node):
        for (p, lab) in preds:
            self._edge(p, node.id, lab)

    def _block(self, stmts, preds):
        for s in stmts:
            preds = self._stmt(s, preds)
        return preds

    def _test(self, expr, preds):
        """Returns (true_outs, false_outs)."""
        if isinstance(expr, ast.BoolOp):
            if isinstance(expr.op, ast.And):
                false_outs = []
                cur = preds
                for v in expr.values:
                    t, f = self._test(v, cur)
                    false_outs += f
                    cur = t
                return cur, false_outs
            else:
                true_outs = []
                cur = preds
                for v in expr.values:
                    t, f = self._test(v, cur)
                    true_outs += t
                    cur = f
                return true_outs, cur
        if isinstance(expr, ast.UnaryOp) and isinstance(expr.op, ast.Not):
            t, f = self._test(expr.operand, preds)
            return f, t
        n = self._new("test", expr)
        self._connect(preds, n)
        return [(n.id, "T")], [(n.id, "F")]

    def _stmt(self, s, preds):
        if isinstance(s, ast.If):
            first = len(self.nodes)
            t, f = self._test(s.test, preds)
            self.stmt_node[id(s)] = self.nodes[first]
            self.test_nodes[id(s)] = self.nodes[first:len(self.nodes)]
            out_t = self._block(s.body, t)
            out_f = self._block(s.orelse, f) if s.orelse else f
            return out_t + out_f
        if isinstance(s, (ast.For, ast.AsyncFor)):
            head = self._new("for", s)
            self.stmt_node[id(s)] = head
            self._connect(preds, head)
            breaks: list = []
            self._loops.append((head, breaks, None))
            body_out = self._block(s.body, [(head.id, "loop")])
            self._loops.pop()
            for (n, lab) in body_out:
                self._edge(n, head.id, lab if lab in ("T", "F") else "back")
            exit_outs = [(head.id, "exit")]
            if s.orelse:
                exit_outs = self._block(s.orelse, exit_outs)
            return exit_outs + breaks
        if isinstance(s, ast.While):
            # loop head is the first test node; use a synthetic head for back edges
            head = self._new("while", s)
            self.stmt_node[id(s)] = head
            self._connect(preds, head)
            t, f = self._test(s.test, [(head.id, "next")])
            breaks = []
            self._loops.append((head, breaks, None))
            body_out = self._block(s.body, t)
            self._loops.pop()
            for (n, lab) in body_out:
                self._edge(n, head.id, lab if lab in ("T", "F") else "back")
            exit_outs = f
            if s.orelse:
                exit_outs = self._block(s.orelse, exit_outs)
            return exit_outs + breaks
        if isinstance(s, ast.Try):
            handlers = []
            # handler heads are created outside the try scope of *this* try
            for h in s.handlers:
                hn = Node(len(self.nodes), "handler", h)
                self.nodes.append(hn)
                self.succ[hn.id] = []
                self.pred[hn.id] = []
                handlers.append(hn)
            self._tries.append(handlers)
            body_out = self._block(s.body, preds)
            self._tries.pop()
            if s.orelse:
                body_out = self._block(s.orelse, body_out)
            outs = list(body_out)
            for hn in handlers:
                # an exception raised inside a handler goes to the outer try
                if self._tries:
                    self._exc_edges(hn)
                outs += self._block(hn.ast.body, [(hn.id, "next")])
            if s.finalbody:
                outs = self._block(s.finalbody, outs)
            return outs
        if isinstance(s, (ast.With, ast.AsyncWith)):
            n = self._new("with", s)
            self.stmt_node[id(s)] = n
            self._connect(preds, n)
            return self._block(s.body, [(n.id, "next")])
        if isinstance(s, (ast.FunctionDef, ast.AsyncFunctionDef, ast.ClassDef)):
            n = self._new("stmt", s, label="def")
            self.stmt_node[id(s)] = n
            self._connect(preds, n)
            return [(n.id, "next")]
        n = self._new("stmt", s)
        self.stmt_node[id(s)] = n
        self._connect(preds, n)
        if isinstance(s, ast.Return):
            self._edge(n.id, self.return_exit.id, "return")
            return []
        if isinstance(s, ast.Raise):
            if not self._tries:
                self._edge(n.id, self.raise_exit.id, "raise")
            # inside a try the exc edges were added by _new
            else:
                pass
            return []
        if isinstance(s, ast.Break):
            if not self._loops:
                raise AnalysisError("break outside loop")
            self._loops[-1][1].append((n.id, "break"))
            return []
        if isinstance(s, ast.Continue):
            if not self._loops:
                raise AnalysisError("continue outside loop")
            self._edge(n.id, self._loops[-1][0].id, "back")
            return []
        return [(n.id, "next")]

    # -- queries ---------------------------------------------------------------
    def node_of(self, stmt) -> Node:
        try:
            return self.stmt_node[id(stmt)]
        except KeyError:
            raise AnalysisError(f"statement not in CFG of {self.func.short}: {unparse(stmt)[:60]}")

    def find_nodes(self, pred: Callable[[Node], bool]) -> List[Node]:
        return [n for n in self.nodes if pred(n)]

    def reachable(self, start: int = None, skip_exc: bool = False, blocked: Iterable[int] = ()) -> Set[int]:
        start = self.entry.id if start is None else start
        blocked = set(blocked)
        seen = {start}
        todo = [start]
        while todo:
            n = todo.pop()
            for (m, lab) in self.succ[n]:
                if skip_exc and lab == "exc":
                    continue
                if m in blocked or m in seen:
                    continue
                seen.add(m)
                todo.append(m)
        return seen

    def dominates(self, a: int, b: int, skip_exc: bool = False) -> bool:
        """True iff every path entry -> b passes through a (a != b allowed to be equal)."""
        if a == b:
            return True
        return b not in self.reachable(blocked=[a], skip_exc=skip_exc)

    def all_paths_pass(self, src: int, dst: int, via: Iterable[int], skip_exc: bool = False) -> bool:
        """Every path src -> dst passes through at least one node of ``via``."""
        via = set(via)
        if src in via:
            return True
        return dst not in self.reachable(start=src, blocked=via, skip_exc=skip_exc)

    def can_reach(self, src: int, dst: int, blocked: Iterable[int] = (), skip_exc: bool = False) -> bool:
        return dst in self.reachable(start=src, blocked=blocked, skip_exc=skip_exc)

    def control_conditions(self, target: int, skip_exc: bool = True) -> List[Tuple[Node, str]]:
        """(test node, outcome) pairs that *must* hold on every path to target:
        test t with outcome o is required iff blocking edge (t, other outcome)
        ... i.e. target is unreachable when the t --o--> edge is removed."""
        if skip_exc and target not in self.reachable(skip_exc=True):
            # only reachable through an exceptional edge (handler code): conditions along exceptional paths
            skip_exc = False
        if target not in self.reachable(skip_exc=skip_exc):
            return []
        out = []
        for t in self.nodes:
            if t.kind != "test":
                continue
            for o in ("T", "F"):
                if not self._reach_without_edge(target, t.id, o, skip_exc):
                    out.append((t, o))
        return out

    def _reach_without_edge(self, target: int, tnode: int, outcome: str, skip_exc: bool) -> bool:
        seen = {self.entry.id}
        todo = [self.entry.id]
        while todo:
            n = todo.pop()
            for (m, lab) in self.succ[n]:
                if skip_exc and lab == "exc":
                    continue
                if n == tnode and lab == outcome:
                    continue
                if m not in seen:
                    seen.add(m)
                    todo.append(m)
        return target in seen

    # -- simulation (E3) -----------------------------------------------------------
    def simulate(
        self,
        decide: Callable[[Node, dict], Optional[bool]],
        on_node: Optional[Callable[[Node, dict], Optional[str]]] = None,
        max_paths: int = 4000,
        follow_exc: Callable[[Node, dict], bool] = None,
    ) -> List["Trace"]:
        """Enumerate paths from entry.  ``decide(test_node, env)`` returns the
        outcome of an atomic test (None = explore both).  Loop bodies are entered
        at most once per loop head (0/1 iterations).  ``env`` maps local names to
        the expression last assigned on this path.  ``follow_exc(node, env)`` says
        whether the exceptional edges of ``node`` are explored (default: only for
        ``raise`` statements)."""
        traces: List[Trace] = []
        stack = [(self.entry.id, [], {}, frozenset())]
        while stack:
            nid, path, env, loops_done = stack.pop()
            if len(traces) > max_paths:
                raise AnalysisError(f"path explosion in {self.func.short}")
            node = self.nodes[nid]
            path = path + [nid]
            if node.kind in ("return_exit", "raise_exit"):
                traces.append(Trace(self, path, env, node.kind))
                continue
            env2 = env
            if node.kind == "stmt":
                env2 = _update_env(env, node.ast)
            elif node.kind == "for":
                env2 = dict(env)
                for name in _target_names(node.ast.target):
                    env2[name] = ast.Name(id=f"<item of {unparse(node.ast.iter)}>", ctx=ast.Load())
            elif node.kind == "handler" and node.ast.name:
                env2 = dict(env)
                env2[node.ast.name] = ast.Name(id="<caught exception>", ctx=ast.Load())
            if on_node:
                on_node(node, env2)
            succs = self.succ[nid]
            if node.kind == "test":
                d = decide(node, env2)
                for (m, lab) in succs:
                    if lab == "exc":
                        continue
                    if d is None or (d and lab == "T") or ((not d) and lab == "F"):
                        stack.append((m, path, env2, loops_done))
                continue
            if node.kind in ("for",):
                for (m, lab) in succs:
                    if lab == "loop":
                        if nid in loops_done:
                            continue
                        stack.append((m, path, env2, loops_done | {nid}))
                    elif lab == "exit":
                        stack.append((m, path, env2, loops_done))
                continue
            if node.kind == "while":
                if path.count(nid) > 2:
                    continue
            is_raise = node.kind == "stmt" and isinstance(node.ast, ast.Raise)
            take_exc = is_raise or (follow_exc(node, env2) if follow_exc else False)
            for (m, lab) in succs:
                if lab == "exc":
                    if take_exc:
                        stack.append((m, path, env2, loops_done))
                    continue
                stack.append((m, path, env2, loops_done))
        return traces


class Trace:
    def __init__(self, cfg: CFG, path: List[int], env: dict, exit_kind: str):
        self.cfg = cfg
        self.path = path
        self.env = env
        self.exit_kind = exit_kind

    @property
    def nodes(self) -> List[Node]:
        return [self.cfg.nodes[i] for i in self.path]

    def last_stmt(self) -> Optional[Node]:
        for n in reversed(self.nodes):
            if n.kind == "stmt":
                return n
        return None

    def stmts(self) -> List[Node]:
        return [n for n in self.nodes if n.kind == "stmt"]

    def texts(self) -> List[str]:
        return [n.text() for n in self.nodes if n.kind not in ("entry",)]


def _is_broad(handler: ast.ExceptHandler) -> bool:
    if handler.type is None:
        return True
    names = []
    if isinstance(handler.type, ast.Tuple):
        names = [dotted(e) for e in handler.type.elts]
    else:
        names = [dotted(handler.type)]
    return any(n in BROAD for n in names if n)


def handler_types(handler: ast.ExceptHandler) -> List[str]:
    if handler.type is None:
        return ["<bare>"]
    if isinstance(handler.type, ast.Tuple):
        return [dotted(e) or unparse(e) for e in handler.type.elts]
    return [dotted(handler.type) or unparse(handler.type)]


def is_broad_handler(handler: ast.ExceptHandler) -> bool:
    return _is_broad(handler)


def _target_names(t) -> List[str]:
    if isinstance(t, ast.Name):
        return [t.id]
    if isinstance(t, (ast.Tuple, ast.List)):
        out = []
        for e in t.elts:
            out += _target_names(e)
        return out
    if isinstance(t, ast.Starred):
        return _target_names(t.value)
    return []


def _update_env(env: dict, stmt) -> dict:
    targets, value = [], None
    if isinstance(stmt, ast.Assign):
        targets, value = stmt.targets, stmt.value
    elif isinstance(stmt, ast.AnnAssign) and stmt.value is not None:
        targets, value = [stmt.target], stmt.value
    elif isinstance(stmt, ast.AugAssign):
        targets, value = [stmt.target], ast.Name(id=f"<aug {unparse(stmt)}>", ctx=ast.Load())
    if not targets:
        return env
    env = dict(env)
    for t in targets:
        if isinstance(t, ast.Name):
            env[t.id] = value
        elif isinstance(t, (ast.Tuple, ast.List)):
            for i, e in enumerate(t.elts):
                for name in _target_names(e):
                    env[name] = ast.Subscript(value=value, slice=ast.Constant(value=i), ctx=ast.Load())
    return env


def build(func: Func) -> CFG:
    return CFG(func)
